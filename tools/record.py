#!/usr/bin/env python3
# Maintenance tool (never run by a registered check): append the unlisted violations found by the last run of a check
# (replays/<ID>/*.json) whose kind matches a regex to known/<ID>.tsv under a finding id.
#   tools/record.py <ID> <finding-id> <kind-regex> [key-regex]
import json,glob,sys,re
def q(s):
    return json.dumps(s, ensure_ascii=False)  # Go strconv.Unquote reads JSON-style quoting for these strings
id,fid,kre=sys.argv[1],sys.argv[2],re.compile(sys.argv[3])
keyre=re.compile(sys.argv[4]) if len(sys.argv)>4 else None
path=f'/verif/known/{id}.tsv'
have=set()
try:
    for l in open(path):
        have.add(l.rstrip('\n'))
except FileNotFoundError: pass
new=[]
for f in sorted(glob.glob(f'/verif/replays/{id}/*.json')):
    d=json.load(open(f))
    if not kre.search(d['kind']): continue
    if keyre and not keyre.search(d['key']): continue
    line=f"{fid}\t{q(d['key'])}\t{q(d['kind'])}"
    if line not in have:
        have.add(line); new.append(line)
with open(path,'a') as o:
    for l in new: o.write(l+'\n')
lines=sorted(set(open(path).read().splitlines()))
open(path,'w').write('\n'.join(lines)+'\n')
print(f'{len(new)} entries added to {path} under {fid}; total {len(lines)}')
