#!/bin/bash
# tools/seedalt.sh <patch.diff> <check> [<check> ...] — like seedtest.sh but never touches /repo or /verif: a scratch
# worktree of /repo's HEAD gets the patch, a scratch copy of /verif (working tree as it is now) runs the quick checks
# against it (VERIF_REPO). Several of these can run in parallel. Everything is removed afterwards.
patch="$(readlink -f "$1")"; shift
tag=alt_$$_$RANDOM
wt=/tmp/$tag.repo; vf=/tmp/$tag.verif
git -C /repo worktree add --detach "$wt" HEAD >/dev/null 2>&1 || { echo "cannot create worktree"; exit 2; }
trap 'git -C /repo worktree remove --force "$wt" >/dev/null 2>&1; rm -rf "$vf" "$wt"' EXIT
if ! git -C "$wt" apply "$patch" 2>/dev/null; then echo "patch does not apply: $patch"; exit 2; fi
mkdir -p "$vf"; rsync -a --exclude bin --exclude evidence --exclude replays --exclude .git --exclude seeded /verif/ "$vf"/
for c in "$@"; do
  out=$(cd "$vf" && VERIF_REPO="$wt" VERIF_SEED=${VERIF_SEED:-1} ./run.sh "$c" ${TIER:-quick} 2>&1)
  code=$?
  nv=$(echo "$out" | grep -c '^VIOLATION')
  if [ $code -eq 1 ] && [ $nv -gt 0 ]; then verdict=DETECTED; elif [ $code -eq 2 ]; then verdict=BUILD-FAILED; else verdict=missed; fi
  echo "$c: $verdict (exit=$code, violations=$nv) $(echo "$out" | grep -A1 '^VIOLATION' | sed -n 2p | cut -c1-200)"
  [ -n "$SEEDALT_LOG" ] && echo "$out" > "$SEEDALT_LOG.$c.log"
  echo "$out" | tail -1
done
