#!/bin/bash
# tools/seedall.sh — re-run every kept seeded change against the quick tier of the check(s) of its property and write
# seeded/RESULTS.md. Applies each patch to /repo, runs, restores /repo (git checkout). Needs a clean /repo.
cd /verif || exit 2
out=seeded/RESULTS.md
{
echo "# Seeded changes against the current checks"
echo
echo "Produced by \`tools/seedall.sh\` (quick tier, VERIF_SEED=${VERIF_SEED:-1}, /repo at $(git -C /repo rev-parse --short HEAD))."
echo
echo "| seeded change | check | verdict | first violation |"
echo "|---|---|---|---|"
} > $out
for d in seeded/*/; do
  name=$(basename $d)
  prop=$(python3 -c "import json;print(json.load(open('$d/meta.json'))['property'])")
  checks=$prop
  case $name in
    C13-*) checks="C13 C09";;
    C04-*) checks="C04 C03";;
    C02-*) checks="C02 C01";;
  esac
  for c in $checks; do
    line=$(tools/seedtest.sh /verif/$d/patch.diff $c 2>&1 | grep "DETECTED\|missed\|BUILD-FAILED\|does not apply" | head -1)
    verdict=$(echo "$line" | grep -o "DETECTED\|missed\|BUILD-FAILED\|does not apply")
    first=$(echo "$line" | sed 's/.*kind=//' | cut -c1-110 | tr '|' '/')
    echo "| $name | $c | $verdict | $first |" >> $out
    echo "$name $c $verdict"
  done
done
