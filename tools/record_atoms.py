#!/usr/bin/env python3
# Maintenance tool (never run by a registered check): classify the unlisted violations dumped by
#   VERIF_RECORD=/tmp/x.jsonl ./run.sh <ID> thorough
# into the findings declared in KNOWN_FINDINGS.txt and append them to known/<ID>.tsv.
#   tools/record_atoms.py <ID> /tmp/x.jsonl [--dry]
import json,sys,re,collections
ID=sys.argv[1]; path=sys.argv[2]; dry='--dry' in sys.argv
def q(s): return json.dumps(s, ensure_ascii=False)
# ordered rules: (finding id, regex on "kind || detail || key")
RULES={
 'C01':[
  ('KF-C01-NOVALUE', r'multiple-value|\(no value\) used as value|used as value'),
  ('KF-C01-TYPEOPERAND', r'is not an expression|is not a type|must be called|not an expression'),
  ('KF-C01-UNUSEDEXPR', r'is not used'),
  ('KF-C01-SHIFT', r'shift|shifted operand'),
  ('KF-C01-LITKEYS', r'duplicate index|duplicate key|must not be negative'),
  ('KF-C01-SLICE', r'cannot slice|3-index slice|invalid slice ind|slice of unaddressable'),
  ('KF-C01-INDEX', r'index .* must be integer|invalid argument: index|cannot index|out of bounds'),
  ('KF-C01-CONSTREPR', r'overflows|truncated|constant .* overflow|cannot use .* constant|not representable|constant'),
  ('KF-C01-CONV', r'cannot convert|conv: '),
  ('KF-C01-COMPARE', r'cannot compare|can only be compared to nil|incomparable|compare: |switchcase: |duplicate case'),
  ('KF-C01-SEND-RANGE', r'assign-send|send|range|cannot range|receive from'),
  ('KF-C01-BUILTIN', r'builtin: '),
  ('KF-C01-OPERATOR', r'binop: |unop: |operator .* not defined|invalid operation'),
  ('KF-C01-ASSIGN', r'assign-|cannot use|cannot assign|assignment mismatch'),
  ('KF-C01-OTHER', r'.'),
 ],
}
RULES['C05']=[('KF-C05-PANIC', r'predicate-panic'),('KF-C05-COMPLEXCONST', r'i\)|[0-9]i\b|asymmetric'),('KF-C05-CONSTREPR', r'AssignableConv|assignc|assign-'),('KF-C05-COMPARABLE', r'ComparableTo|compare: |switchcase: '),('KF-C05-CONV', r'conv: |ConvertibleTo'),('KF-C05-OTHER', r'.')]
RULES['C02']=[('KF-C02-CONSTBOOL', r'dump-diff'),('KF-C02-MINMAX', r'min\(|max\(|inferred type'),('KF-C02-COMPLEX', r'[0-9]i\b|complex|i\)'),('KF-C02-SHIFT', r'<<|>>|shift'),('KF-C02-UNSAFE', r'unsafe\.'),('KF-C02-NILCMP', r'== nil|!= nil|nil ==|nil !='),('KF-C02-OTHER', r'.')]
RULES['C03']=[('KF-C03-ZEROCONV', r'emitted-type: (0|""|false) builder='),('KF-C03-UNTYPEDRESULT', r'builder=untyped'),('KF-C03-BOOLRESULT', r'builder=bool go=untyped bool'),('KF-C03-APPEND', r'append\('),('KF-C03-OTHER', r'.')]
RULES['C04']=[('KF-C04-NOTCONST', r'not a constant expression'),('KF-C04-FOLDEDINVALID', r'rejected by go/types'),('KF-C04-VALUE', r'^cval|cval: '),('KF-C04-OTHER', r'.')]
RULES['C17']=[('KF-C17-OTHER', r'.')]
rules=[(f,re.compile(r)) for f,r in RULES[ID]]
kn=f'/verif/known/{ID}.tsv'
have=set()
try:
    have=set(open(kn).read().splitlines())
except FileNotFoundError: pass
cnt=collections.Counter(); new=[]; ex={}
for l in open(path):
    d=json.loads(l)
    text=d['kind']+' || '+d['detail']+' || '+d['key']
    for f,r in rules:
        if r.search(text):
            line=f"{f}\t{q(d['key'])}\t{q(d['kind'])}"
            cnt[f]+=1; ex.setdefault(f,[]).append(d['key'][:90]+' | '+d['detail'][:110].replace('\n',' '))
            if line not in have: have.add(line); new.append(line)
            break
for f,n in cnt.most_common():
    print(n,f); 
    for e in ex[f][:4]: print('      ',e)
if not dry:
    open(kn,'w').write('\n'.join(sorted(have))+'\n')
    print(len(new),'entries added; total',len(have))
