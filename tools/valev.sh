#!/bin/bash
# validate all evidence files against the schema
python3-vt - <<'PY' 2>&1 | grep -v conda
import json,glob,jsonschema
s=json.load(open('/root/.vp/EVIDENCE.schema.json'))
for f in sorted(glob.glob('/verif/evidence/*.json')):
    try:
        jsonschema.validate(json.load(open(f)),s); print('ok ',f)
    except Exception as e: print('BAD',f,str(e)[:200])
PY
