#!/usr/bin/env python3
# tools/keepseed.py <ID> <name> "<needs>" "<detected-by>" : copy a confirmed seeded change from /tmp/mut_<ID>_out to /verif/seeded/<name>/
import sys,os,shutil,json,glob
id,name,needs,detected=sys.argv[1:5]
src=f'/tmp/mut_{id}_out'; dst=f'/verif/seeded/{name}'
os.makedirs(dst,exist_ok=True)
shutil.copy(f'{src}/patch.diff',f'{dst}/patch.diff')
for f in glob.glob(f'{src}/**',recursive=True):
    if os.path.isfile(f) and ('seeded' in os.path.basename(f) or f.endswith('notes.md')) :
        rel=os.path.relpath(f,src); os.makedirs(os.path.dirname(f'{dst}/{rel}') or dst,exist_ok=True); shutil.copy(f,f'{dst}/{rel}')
conf=open(f'{src}/confirm.log').read() if os.path.exists(f'{src}/confirm.log') else ''
meta={"property":id,"breaks":open(f'{src}/notes.md').read().split('\n')[0][:200] if os.path.exists(f'{src}/notes.md') else '',
 "needs_to_manifest":needs,"confirmed_by_me":conf.strip().split('\n'),
 "what_i_ran":[f"/tmp/confirm.sh {id}  (demo with change must fail, demo without change must pass, repository suite with change must pass)",
               f"tools/seedtest.sh seeded/{name}/patch.diff <checks>  (apply to /repo, run quick checks, revert)"],
 "detected_by":detected}
# .go files are stored as .go.txt so that the /verif module never compiles them
for root,_,files in os.walk(dst):
    for f in files:
        if f.endswith('.go'): os.replace(os.path.join(root,f), os.path.join(root,f+'.txt'))
json.dump(meta,open(f'{dst}/meta.json','w'),indent=1)
print('kept',dst, os.listdir(dst))
