#!/usr/bin/env python3
# tools/keepseed5.py — copy the batch-5 seeded changes (sub-agent worktrees /tmp/mut_b5<ID>_wt, outputs /tmp/mut_b5<ID>_out) to
# /verif/seeded/<name>/ with meta.json. Confirmation lines come from /root/sweeps/b5/confirm*_<ID>.txt (my own runs).
import os,shutil,json,glob,subprocess,sys
T={
 'C01':('C01-complex-constant-accepted-for-real-targets','an untyped complex constant with a non-zero imaginary part where a float32/float64 value is required, or with a fractional real part and zero imaginary part where an integer is required','C01 (accepted-illtyped, binop / assign atoms with complex constants) and C05 (construct: builder-accepts=true go-accepts=false)'),
 'C02':('C02-printer-drops-parens-of-right-nested-associative-operand','a right operand that is itself a binary expression with the same operator among + * & | ^ && ||','C02 (dump-diff on binop atoms such as c128 + (1 + 2i)) and C12 (structure-changed on generated trees); C01 is silent by design (the output still type-checks)'),
 'C03':('C03-constdefs-next-type-once-per-spec','a const spec with two or more names and no declared type, continued by implicit repetition, whose columns have different types','C03 after the const-group catalogue gained two-name specs (type: kbx builder=untyped int go=untyped float); the single-name catalogue MISSED it'),
 'C04':('C04-integer-constant-division-euclidean','a constant integer division with a negative dividend and an inexact quotient','C04 (cval differences on nested constant expressions and division atoms)'),
 'C05':('C05-comparableto-swaps-types-not-operands','typed integer operand on the left of == / != and an untyped float constant on the right','C05 (construct verdict differs from Go; asymmetry of ComparableTo)'),
 'C06':('C06-backupargs-only-untyped-arguments','an earlier rejected candidate that converts a TYPED argument in place (T_Init, generic function value) before rejecting a later argument','C06 (chosen-call-ill-typed, residue)'),
 'C07':('C07-partial-instantiation-skips-constraint-validation','a partially instantiated generic function that is called with a type argument violating a union / approximation / comparable constraint','C07 (invalid-call-accepted, also through type-as-parameter calls)'),
 'C08':('C08-fieldref-premarks-struct-behind-embedded-pointer','an assignment target whose field lies at least one embedding level below an embedded pointer, reachable along a single path','C08 after the finding identity separated names reachable along exactly one path (rejected-valid-selector ... the only member of that name in the graph); before that the violation was MASKED by the recorded class of the depth-first lookup finding'),
 'C09':('C09-usedeclarednames-skips-receiver-names','a method receiver named like an imported package, a reference to that package inside the method, and no other occurrence of the identifier (the receiver is never used)','C09 after the sole-declaration scenarios were added (17 declaration kinds x 3 packages, with and without a use of the declared name: output-ill-typed: undefined-member); random histories (functions only, names always used) MISSED it'),
 'C10':('C10-hasbreak-nested-breakables-inherit-istarget','a labeled for{} / switch / select as last statement whose label is used by continue or goto, with an unlabeled break inside a nested switch / select / loop','C10 (4 random bodies at the first run; 100+ bodies after the deterministic template catalogue was added)'),
 'C11':('C11-assign-form-range-prestmts-not-hoisted','an assign-form range (for k, v = range X) whose range expression is a member chain on any','C11 after member chains on any were placed in statement-header positions (lowering-ill-typed: member/any.pos/range-assign, range-assign-key, range-novars); the expression-statement scenarios MISSED it'),
 'C13':('C13-blank-parameter-name-dropped','a signature mixing a blank (_) parameter or result name with really named ones','C13 (output-unparsable / type-changed, 248 programs)'),
 'C14':('C14-zero-of-complex-types-is-nil','a zero value of a complex type (or a named type over one) through any route','C14 (zero-value-rejected-by-go for complex64 / complex128)'),
 'C16':('C16-endblockstmt-never-grows-stack','an inline closure call with at least one argument','C16 after the API-driven inline closure family was added (imbalance: stack depth after End()); C11 also reports it (crash in the inline/args-once scenario); the source-driven C16 workload cannot express inline closure calls and MISSED it'),
}
for id,(name,needs,detected) in T.items():
    wt=f'/tmp/mut_b5{id}_wt'; out=f'/tmp/mut_b5{id}_out'; dst=f'/verif/seeded/{name}'
    if not os.path.exists(f'{out}/patch.diff'): print('skip',id); continue
    conf=[]
    for f in sorted(glob.glob(f'/root/sweeps/b5/confirm*_{id}.txt')):
        conf+= [f'[{os.path.basename(f)}] '+l for l in open(f).read().strip().split('\n') if l]
    demo_ok = any('demo with change: exit 1' in l for l in conf) and any('demo without change: exit 0' in l for l in conf)
    if not demo_ok:
        print('NOT CONFIRMED (demo) — not kept:',id); continue
    os.makedirs(dst,exist_ok=True)
    shutil.copy(f'{out}/patch.diff',f'{dst}/patch.diff')
    if os.path.exists(f'{out}/notes.md'): shutil.copy(f'{out}/notes.md',f'{dst}/notes.md')
    demos=subprocess.run(['git','-C',wt,'ls-files','--others','--exclude-standard'],capture_output=True,text=True).stdout.split()
    for d in demos:
        if d.endswith('_test.go'): shutil.copy(f'{wt}/{d}',f'{dst}/{os.path.basename(d)}.txt')
    suite_me = [l for l in conf if 'suite with change' in l]
    suite_ok_me = any('exit 0' in l for l in suite_me)
    # the sub-agent's own full-suite log (kept: last lines)
    agent_suite=''
    for f in glob.glob(f'{out}/*suite*.log')+glob.glob(f'{out}/full_root.log')+glob.glob(f'{out}/related.log'):
        try:
            tail=[l for l in open(f,errors='replace').read().strip().split('\n') if l.startswith('ok') or l.startswith('FAIL') or 'timed out' in l]
            agent_suite+=f'{os.path.basename(f)}: '+' | '.join(tail[-4:])+'\n'
        except Exception as e: pass
    second_wave = id in ('C11','C13','C14','C16')
    note = "my own run of the unedited repository suite with the change (tools/confirm.sh / csuite.sh) " + ("passed" if suite_ok_me else "was cut off by the go test timeout while the machine was overloaded by the parallel sub-agents (no --- FAIL line before the cut-off); the sub-agent's own run with a long timeout passed, its log lines are below")
    if second_wave and not suite_ok_me:
        note = "NOT confirmed: this change was produced in the second wave, whose sub-agents were told to run only the tests related to the code they touched (they passed; a FAIL line in related.log is the TestSeeded demonstration itself, matched by an unanchored -run pattern); my own full-suite run with the change did not finish before the end of the session"
    meta={"property":id,"breaks":open(f'{out}/notes.md').read().split('\n')[0][:400] if os.path.exists(f'{out}/notes.md') else '',
      "needs_to_manifest":needs,
      "confirmed_by_me":conf,
      "suite_with_change":{"confirmed_by_me":suite_ok_me,
         "note":note,
         "sub_agent_log":agent_suite.strip().split('\n')},
      "what_i_ran":["tools/confirm.sh b5%s / /root/sweeps/cdemo.sh %s  (demo with change must fail, demo without change must pass; repository suite with the change)"%(id,id),
                    "tools/seedalt.sh /tmp/mut_b5%s_out/patch.diff <checks>  (scratch worktree of /repo + scratch copy of /verif, quick tier, VERIF_SEED=1)"%id],
      "detected_by":detected}
    json.dump(meta,open(f'{dst}/meta.json','w'),indent=1)
    print('kept',name, 'suite_me=',suite_ok_me)
