#!/usr/bin/env python3
# summarise replay files of a check by kind: tools/viol.py C20 [kind-substring]
import json,glob,sys,collections
id=sys.argv[1]; flt=sys.argv[2] if len(sys.argv)>2 else None
c=collections.Counter(); ex={}
for f in glob.glob(f'/verif/replays/{id}/*.json'):
    d=json.load(open(f))
    if flt and flt not in d['kind']: continue
    c[d['kind']]+=1; ex.setdefault(d['kind'],[]).append(d)
for k,n in c.most_common():
    print(n,k)
    for d in ex[k][:int(sys.argv[3]) if len(sys.argv)>3 else 2]:
        print('     key:',d['key'][:300].replace('\n','\\n'))
        print('     det:',d['detail'][:400].replace('\n','\n          '))
