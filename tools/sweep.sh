#!/bin/bash
# tools/sweep.sh <seed> [tier] — run every check once at VERIF_SEED=<seed>, one summary line per check (used with `vp run`).
seed="${1:-1}"; tier="${2:-quick}"
cd "$(dirname "$0")/.." || exit 2
mkdir -p sweeplogs
for c in C01 C02 C03 C04 C05 C06 C07 C08 C09 C10 C11 C12 C13 C14 C15 C16 C17 C18 C19 C20; do
  s=$(date +%s)
  VERIF_SEED=$seed ./run.sh $c $tier > sweeplogs/s${seed}_$c.log 2>&1
  code=$?
  echo "$c seed=$seed tier=$tier exit=$code t=$(( $(date +%s)-s ))s viol=$(grep -c '^VIOLATION' sweeplogs/s${seed}_$c.log) kf=$(grep -c '^KNOWN-FINDING' sweeplogs/s${seed}_$c.log)"
  grep -A1 '^VIOLATION' sweeplogs/s${seed}_$c.log | head -6
done
