#!/bin/bash
# tools/seedtest.sh <patch.diff> <check> [<check> ...]   — apply a seeded change to /repo, run the quick checks, revert.
# Prints one line per check: DETECTED / missed (exit code and number of VIOLATION lines). Never leaves /repo modified.
patch="$1"; shift
cd /repo || exit 2
if ! git diff --quiet; then echo "/repo has uncommitted changes"; exit 2; fi
if ! git apply --check "$patch" 2>/dev/null; then echo "patch does not apply: $patch"; exit 2; fi
git apply "$patch"
trap 'git -C /repo checkout -- . ; git -C /repo clean -fdq -- . >/dev/null 2>&1' EXIT
for c in "$@"; do
  out=$(cd /verif && VERIF_SEED=${VERIF_SEED:-1} ./run.sh "$c" ${TIER:-quick} 2>&1)
  code=$?
  nv=$(echo "$out" | grep -c '^VIOLATION')
  if [ $code -eq 1 ] && [ $nv -gt 0 ]; then verdict=DETECTED; elif [ $code -eq 2 ]; then verdict=BUILD-FAILED; else verdict=missed; fi
  echo "$c: $verdict (exit=$code, violations=$nv) $(echo "$out" | grep -A1 '^VIOLATION' | sed -n 2p | cut -c1-200)"
  echo "$out" | tail -1
done
