#!/usr/bin/env python3
# Regenerates /verif/MANIFEST.json from the table below and validates it against the schema.
import json,subprocess,sys
CHECKS = {
 "C19": dict(level="exploration", technique="model-based runtime monitoring: reference association list over types.Identical compared after every operation; hash law on all pool pairs; Go race detector for read-only concurrency",
   text="Runtime monitor with an executable reference model. Held on K random histories over pools of structurally-equal-but-distinct type objects; every At/Len/Keys/Iterate observation after every operation is compared with the model, the hash law on every pool pair, read-only operations are raced under the race detector. Exploration, not proof: the space of histories and types is unbounded.",
   note="trusted: go/types.Identical as the definition of identity, the Go race detector; pools are generated from Go source type-checked by go/types", ref="DESIGN.md §2 C19"),
 "C20": dict(level="fault_enumeration", technique="runtime monitoring of fault-injected histories against a reference model (stub `go` on PATH, scripted PkgHash), porcupine linearizability check of recorded concurrent histories, Go race detector",
   text="Enumerates fault histories (listing failure, fingerprint bumps of package/dependency/skipped dependency, export-file deletion, HashInvalid, save+load) — thorough: all histories of length<=5 over 11 operations plus random long ones — and every cache-file corruption of a fixed family; each Find/ListTimes observation is decided by a model of the property statement; concurrent histories are recorded at the client boundary and checked with porcupine; all under the race detector.",
   note="trusted: the stub go lists exactly what is asked; fingerprints unique and monotone; porcupine; race detector. The list-then-fingerprint window of Prepare is a recorded known finding (KF-C20-TOCTOU).", ref="DESIGN.md §2 C20"),
}
CHECKS.update({
 "C10": dict(level="exploration", technique="runtime monitoring with a reference model: HandleErr deliveries of front-end driven builds vs go/types diagnostics on the same generated function bodies",
   text="Differential monitor: for systematically enumerated and random function bodies the multiset of missing-return / unused-label / duplicate-label diagnostics delivered to HandleErr must equal go/types'. Exploration of an unbounded space of bodies.",
   note="trusted: go/types' implementation of terminating statements and label rules; bodies with other errors are skipped; with duplicated label names the use attribution is the front end's and is not compared", ref="DESIGN.md §2 C10"),
 "C12": dict(level="exploration", technique="round-trip monitoring of the forked printer: print -> go/parser -> structural dump comparison, go/format fixed point, comment placement, on position-stripped standard-library files and generated trees",
   text="Oracle observing executions of the real formatter path on thousands of trees: output parses, re-parsed structure equals the input tree, output is a go/format fixed point, attached comments appear once directly before their statement.",
   note="trusted: go/parser, go/format, go/printer (as legality guard for generated trees). One recorded finding (KF-C12-INDENT, whitespace only).", ref="DESIGN.md §2 C12"),
 "C13": dict(level="exploration", technique="round-trip monitoring: builder-held types.Type -> emitted type syntax -> go/types re-check -> cross-universe type identity",
   text="Every declared object's type is re-read from the emitted source with the same importer objects and compared for identity; random type algebra to depth 5 incl. tags, embedding, channel direction nestings, unions, instantiations, equal-base-name packages.",
   note="trusted: go/types identity; the front end's construction of types.Type from syntax (validated on the corpus)", ref="DESIGN.md §2 C13"),
 "C14": dict(level="exploration", technique="runtime monitoring of API-built scenarios: emitted zero values re-checked by go/types in 5 positions",
   text="For random types the zero value is synthesised through ZeroLit, T(), ReturnErr padding and omitted optional arguments; Go must accept the emitted package, `y := <zero>` must have exactly type T and the reported type must be T.",
   note="trusted: go/types; typing only (no execution). Recorded finding KF-C14-UNTYPED (bare untyped literals).", ref="DESIGN.md §2 C14"),
 "C15": dict(level="exploration", technique="replay monitoring: repeated in-process builds under heap perturbation and cross-process builds under different GOGC/GOMAXPROCS, SHA-256 comparison of every written file",
   text="The same operation sequence is built 6x in-process (warm and fresh importer, garbage + forced GC between builds) and 3x in fresh processes; any byte difference is a violation. Programs chosen to contain unordered items (several XGo dependencies, overload families, imports, files).",
   note="trusted: byte comparison; Go's per-iteration map order randomisation as the perturbation source", ref="DESIGN.md §2 C15"),
 "C16": dict(level="exploration", technique="online invariant monitor at the builder's public observation points (InternalStack/Scope/Func/InVBlock/LookupLabel) after every operation of front-end driven builds",
   text="Assertions after every operation (documented arity), statement (stack base, scope, function, vblock), expression (+1) and function/closure (label context) over generated programs nested to depth 8, multi-file splits, the corpus and statement-level error-recovery histories.",
   note="trusted: the arity table of internal/fe (validated on the repository's corpus)", ref="DESIGN.md §2 C16"),
 "C18": dict(level="exploration", technique="Go race detector over concurrent front-end driven builds with injected Gosched at operation boundaries + byte comparison with sequential builds",
   text="Rounds of 2-12 goroutines building different programs with own Package/Config/importer under -race; every race report is a violation; each package's concurrent output must equal its sequential output.",
   note="trusted: Go race detector (reports only races that occurred); schedules are those the scheduler and Gosched injection produced", ref="DESIGN.md §2 C18"),
})
CHECKS.update({
 "C01": dict(level="exploration", technique="runtime monitoring with go/parser + go/types as oracle on every accepted build: complete atom catalogues (thorough) / stratified samples (quick) plus generated, fault-injected, multi-file and corpus programs",
   text="Every build the builder accepts is printed, re-parsed and type-checked with the same importer objects; the accepted-but-wrong region is searched by complete catalogues of one-statement programs (operators, shifts, conversions, assignment contexts, comparisons, builtins, access forms) in two configurations and by programs with one injected fault.",
   note="trusted: go/types of the running toolchain. The pinned tree has many recorded soundness gaps (known/C01.tsv, listed input by input).", ref="DESIGN.md §2 C01"),
 "C02": dict(level="exploration", technique="differential runtime monitoring: canonical typed dump (go/types-resolved AST) of the source vs of the emitted package, on valid atoms and generated/corpus programs",
   text="For every program go/types accepts, the builder must report no error and the canonical typed dump of its output must equal the source's (declarations, nesting, operators, operands, identifier bindings; formatting, parentheses, import names excluded).",
   note="trusted: go/types identifier resolution on both sides; front end validated on the repository's corpus", ref="DESIGN.md §2 C02"),
 "C03": dict(level="exploration", technique="runtime monitoring of reported types at the API boundary vs context-free go/types typing (types.Eval) of the corresponding emitted node",
   text="After every completed sub-expression the type exposed by the builder is recorded and compared, through the node correspondence given by equal canonical dumps, with the type go/types assigns to the emitted node; cross-universe identity, untyped kinds preserved.",
   note="trusted: go/types (types.Eval for context-free typing); correspondence exists only for programs whose dumps are equal (others are C01/C02 matters)", ref="DESIGN.md §2 C03"),
 "C04": dict(level="exploration", technique="runtime monitoring of folded constants (Elem.CVal) vs go/types constant values, exact comparison with go/constant",
   text="Presence and exact value of the builder's compile-time values are compared with go/types' on the complete operator x constant-operand catalogues (boundary values, > 64 bit, shifts with extreme counts, constant builtins, conversions) and on generated nested constant expressions; constant expressions Go rejects must not be folded.",
   note="trusted: go/constant arithmetic, go/types' decision of what is constant", ref="DESIGN.md §2 C04"),
 "C05": dict(level="exploration", technique="exhaustive predicate grid (AssignableTo/AssignableConv/ComparableTo/ConvertibleTo/Default) against go/types verdicts on generated one-statement programs, plus construct-level agreement on the assign/compare/conversion catalogues",
   text="The public predicates are evaluated on a closed universe of 60 types x 67 boundary constants (complete in both tiers, symmetry checked in both argument orders) and compared with Go's verdict for `var _ T = v`, `_ = v == w`, `_ = T(v)`; the same pairs are asked through 8 constructs and must get Go's verdict.",
   note="trusted: go/types; default configuration (documented extensions of the relation excluded)", ref="DESIGN.md §2 C05"),
 "C06": dict(level="exploration", technique="runtime monitoring of overload resolution against an executable model (go/types applicability of each concrete candidate in index order) with twin builds for residue",
   text="Random overload families imported as Go source; for 41 argument lists x 4 callee forms the emitted callee must be the first candidate Go accepts, the emitted file must equal the file emitted for a direct call of that candidate, and Recorder.Call must name it.",
   note="trusted: go/types; generic function values as arguments and variadic generic candidates are decided in C07", ref="DESIGN.md §2 C06"),
 "C07": dict(level="exploration", technique="differential runtime monitoring of generic calls/references against go/types inference (accept/reject, Info.Instances, instantiated types) on a complete catalogue",
   text="4.8k uses of 19 generic functions and 3 generic types (inferred, explicit, partial, function values, constraint violations, operations on type-parameter values) — accept/reject, type arguments and reported instantiated types must equal go/types'.",
   note="trusted: go/types inference of the running toolchain; recorded findings listed statement by statement", ref="DESIGN.md §2 C07"),
 "C08": dict(level="exploration", technique="differential runtime monitoring of selector resolution on random embedding graphs against go/types (accept/reject, selected member identified by its distinct type, Recorder.Member)",
   text="Random struct/interface graphs with colliding names; 4 roots x 15 names x 15 operand forms per graph; every member has its own type so the reported type identifies the chosen member.",
   note="trusted: go/types selector rules. The member-lookup algorithm has recorded design-level findings identified by (operand form, Go verdict class, wrong behaviour).", ref="DESIGN.md §2 C08"),
 "C09": dict(level="exploration", technique="runtime monitoring of API-built import histories: every written file re-parsed and re-checked; import names, import sets and the package each qualified reference resolves to compared with the history",
   text="Histories with equal-base-name packages, declarations named like imports in every scope kind, discarded references, ForceImport and file switches; import names must be unique and distinct from all declared identifiers, the resolved references must be exactly those the history made.",
   note="trusted: go/types Info.Uses; recorded finding for the reserved _autoGo_ prefix", ref="DESIGN.md §2 C09"),
 "C11": dict(level="exploration", technique="runtime monitoring by execution: API-built extension scenarios are type-checked, compiled and run side by side with an independently written plain-Go reference program; printed results compared per scenario",
   text="Scenario table (builtin-type methods x receiver forms, map/any members, bool casts, optional parameters, aliases/auto-properties, inline closures with side-effecting arguments, T(), units, big-number literals and operators): phase 1 type-checks each lowering, phase 2 executes all of them against the reference.",
   note="trusted: the Go toolchain (compile + run), math/big for expected big-number values; the documented meaning is encoded in the scenario table", ref="DESIGN.md §2 C11"),
 "C17": dict(level="exploration", technique="runtime monitoring in isolated worker processes: panic classification (runtime.Error vs reported error), journal attribution of fatal errors, logical resource watchdog (heap bytes, process CPU)",
   text="Every catalogue atom (valid or not) under three configurations, one journaled case per atom; recovered panics whose value is a runtime.Error, worker deaths and resource overruns are violations.",
   note="trusted: the classification of panic values by dynamic type; limits 3 GiB heap / 60 CPU-s per atom (three orders of magnitude above normal)", ref="DESIGN.md §2 C17"),
})
PENDING = set()  # checks implemented but not yet claimed
ENGINES = [
 {"name":"h","path":"internal/h","serves_properties":sorted(CHECKS),"kind_free_text":"supervisor/worker isolation, journals, resource watchdog, known-finding matcher, evidence writer"},
 {"name":"ref","path":"internal/ref","serves_properties":sorted(CHECKS),"kind_free_text":"reference oracles: go/types wrappers, shared importer, canonical typed dump, cross-universe type identity"},
 {"name":"gen","path":"internal/gen","serves_properties":sorted(CHECKS),"kind_free_text":"workload generators (type algebra, programs, atoms, histories), all functions of (VERIF_SEED, check, case)"},
]
props=[json.loads(l) for l in open('/verif/properties.jsonl')]
m={"version":1,"setup_cmd":"./run.sh --setup",
 "hooks":{"guard":"verif","enable":"no source hooks: the harness module github.com/goplus/gogen/verif has `replace github.com/goplus/gogen => /repo`, so every check rebuilds against /repo's working tree and observes the public API (and, by the import-path rule for internal/, gogen's internal packages); the tag `verif` is reserved and unused",
  "baseline_off_cmd":"cd /repo && GOPROXY=off GOTOOLCHAIN=local go test -mod=mod -vet=off -count=1 -timeout 25m ./...","source_commits":[],"add_only":True},
 "engines":ENGINES,"checks":[],"not_applicable":[],
 "notes":"All checks: ./run.sh <Cxx> <quick|thorough>; VERIF_SEED selects samples/generators. Known findings: KNOWN_FINDINGS.txt + known/*.tsv. Replay: ./run.sh --replay <file>."}
for p in props:
    id=p['id']
    if id in CHECKS and id not in PENDING:
        c=CHECKS[id]
        m['checks'].append({"property_id":id,"quick_cmd":f"./run.sh {id} quick","thorough_cmd":f"./run.sh {id} thorough","evidence_file":f"/verif/evidence/{id}.json",
          "replay_cmd_template":"./run.sh --replay {path}","engine":"h","level_claimed":{"category":c['level'],"text":c['text'],"design_ref":c['ref']},"level_note":c['note'],"technique":c['technique']})
    else:
        m['not_applicable'].append({"property_id":id,"reason":"check still under construction in this session (designed in DESIGN.md §2); it is claimed as soon as its monitor is silent on the unchanged tree"})
json.dump(m,open('/verif/MANIFEST.json','w'),indent=1)
r=subprocess.run(['python3-vt','-c','import json,jsonschema;jsonschema.validate(json.load(open("/verif/MANIFEST.json")),json.load(open("/root/.vp/MANIFEST.schema.json")));print("manifest valid")'],capture_output=True,text=True)
print(r.stdout.strip().splitlines()[-1] if r.stdout.strip() else r.stderr[-500:])
print("claimed:",len(m['checks']),"pending:",len(m['not_applicable']))
