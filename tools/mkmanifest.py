#!/usr/bin/env python3
# Regenerates /verif/MANIFEST.json from the table below and validates it against the schema.
import json,subprocess,sys
CHECKS = {
 "C19": dict(level="exploration", technique="model-based runtime monitoring: reference association list over types.Identical compared after every operation; hash law on all pool pairs; Go race detector for read-only concurrency",
   text="Runtime monitor with an executable reference model. Held on K random histories over pools of structurally-equal-but-distinct type objects; every At/Len/Keys/Iterate observation after every operation is compared with the model, the hash law on every pool pair, read-only operations are raced under the race detector. Exploration, not proof: the space of histories and types is unbounded.",
   note="trusted: go/types.Identical as the definition of identity, the Go race detector; pools are generated from Go source type-checked by go/types", ref="DESIGN.md §2 C19"),
 "C20": dict(level="fault_enumeration", technique="runtime monitoring of fault-injected histories against a reference model (stub `go` on PATH, scripted PkgHash), porcupine linearizability check of recorded concurrent histories, Go race detector",
   text="Enumerates fault histories (listing failure, fingerprint bumps of package/dependency/skipped dependency, export-file deletion, HashInvalid, save+load) — thorough: all histories of length<=5 over 11 operations plus random long ones — and every cache-file corruption of a fixed family; each Find/ListTimes observation is decided by a model of the property statement; concurrent histories are recorded at the client boundary and checked with porcupine; all under the race detector.",
   note="trusted: the stub go lists exactly what is asked; fingerprints unique and monotone; porcupine; race detector. The list-then-fingerprint window of Prepare is a recorded known finding (KF-C20-TOCTOU).", ref="DESIGN.md §2 C20"),
}
CHECKS.update({
 "C10": dict(level="exploration", technique="runtime monitoring with a reference model: HandleErr deliveries of front-end driven builds vs go/types diagnostics on the same generated function bodies",
   text="Differential monitor: for systematically enumerated and random function bodies the multiset of missing-return / unused-label / duplicate-label diagnostics delivered to HandleErr must equal go/types'. Exploration of an unbounded space of bodies.",
   note="trusted: go/types' implementation of terminating statements and label rules; bodies with other errors are skipped; with duplicated label names the use attribution is the front end's and is not compared", ref="DESIGN.md §2 C10"),
 "C12": dict(level="exploration", technique="round-trip monitoring of the forked printer: print -> go/parser -> structural dump comparison, go/format fixed point, comment placement, on position-stripped standard-library files and generated trees",
   text="Oracle observing executions of the real formatter path on thousands of trees: output parses, re-parsed structure equals the input tree, output is a go/format fixed point, attached comments appear once directly before their statement.",
   note="trusted: go/parser, go/format, go/printer (as legality guard for generated trees). One recorded finding (KF-C12-INDENT, whitespace only).", ref="DESIGN.md §2 C12"),
 "C13": dict(level="exploration", technique="round-trip monitoring: builder-held types.Type -> emitted type syntax -> go/types re-check -> cross-universe type identity",
   text="Every declared object's type is re-read from the emitted source with the same importer objects and compared for identity; random type algebra to depth 5 incl. tags, embedding, channel direction nestings, unions, instantiations, equal-base-name packages.",
   note="trusted: go/types identity; the front end's construction of types.Type from syntax (validated on the corpus)", ref="DESIGN.md §2 C13"),
 "C14": dict(level="exploration", technique="runtime monitoring of API-built scenarios: emitted zero values re-checked by go/types in 5 positions",
   text="For random types the zero value is synthesised through ZeroLit, T(), ReturnErr padding and omitted optional arguments; Go must accept the emitted package, `y := <zero>` must have exactly type T and the reported type must be T.",
   note="trusted: go/types; typing only (no execution). Recorded finding KF-C14-UNTYPED (bare untyped literals).", ref="DESIGN.md §2 C14"),
 "C15": dict(level="exploration", technique="replay monitoring: repeated in-process builds under heap perturbation and cross-process builds under different GOGC/GOMAXPROCS, SHA-256 comparison of every written file",
   text="The same operation sequence is built 6x in-process (warm and fresh importer, garbage + forced GC between builds) and 3x in fresh processes; any byte difference is a violation. Programs chosen to contain unordered items (several XGo dependencies, overload families, imports, files).",
   note="trusted: byte comparison; Go's per-iteration map order randomisation as the perturbation source", ref="DESIGN.md §2 C15"),
 "C16": dict(level="exploration", technique="online invariant monitor at the builder's public observation points (InternalStack/Scope/Func/InVBlock/LookupLabel) after every operation of front-end driven builds",
   text="Assertions after every operation (documented arity), statement (stack base, scope, function, vblock), expression (+1) and function/closure (label context) over generated programs nested to depth 8, multi-file splits, the corpus and statement-level error-recovery histories.",
   note="trusted: the arity table of internal/fe (validated on the repository's corpus)", ref="DESIGN.md §2 C16"),
 "C18": dict(level="exploration", technique="Go race detector over concurrent front-end driven builds with injected Gosched at operation boundaries + byte comparison with sequential builds",
   text="Rounds of 2-12 goroutines building different programs with own Package/Config/importer under -race; every race report is a violation; each package's concurrent output must equal its sequential output.",
   note="trusted: Go race detector (reports only races that occurred); schedules are those the scheduler and Gosched injection produced", ref="DESIGN.md §2 C18"),
})
ENGINES = [
 {"name":"h","path":"internal/h","serves_properties":sorted(CHECKS),"kind_free_text":"supervisor/worker isolation, journals, resource watchdog, known-finding matcher, evidence writer"},
 {"name":"ref","path":"internal/ref","serves_properties":sorted(CHECKS),"kind_free_text":"reference oracles: go/types wrappers, shared importer, canonical typed dump, cross-universe type identity"},
 {"name":"gen","path":"internal/gen","serves_properties":sorted(CHECKS),"kind_free_text":"workload generators (type algebra, programs, atoms, histories), all functions of (VERIF_SEED, check, case)"},
]
props=[json.loads(l) for l in open('/verif/properties.jsonl')]
m={"version":1,"setup_cmd":"./run.sh --setup",
 "hooks":{"guard":"verif","enable":"no source hooks: the harness module github.com/goplus/gogen/verif has `replace github.com/goplus/gogen => /repo`, so every check rebuilds against /repo's working tree and observes the public API (and, by the import-path rule for internal/, gogen's internal packages); the tag `verif` is reserved and unused",
  "baseline_off_cmd":"cd /repo && GOPROXY=off GOTOOLCHAIN=local go test -mod=mod -vet=off -count=1 -timeout 25m ./...","source_commits":[],"add_only":True},
 "engines":ENGINES,"checks":[],"not_applicable":[],
 "notes":"All checks: ./run.sh <Cxx> <quick|thorough>; VERIF_SEED selects samples/generators. Known findings: KNOWN_FINDINGS.txt + known/*.tsv. Replay: ./run.sh --replay <file>."}
for p in props:
    id=p['id']
    if id in CHECKS:
        c=CHECKS[id]
        m['checks'].append({"property_id":id,"quick_cmd":f"./run.sh {id} quick","thorough_cmd":f"./run.sh {id} thorough","evidence_file":f"/verif/evidence/{id}.json",
          "replay_cmd_template":"./run.sh --replay {path}","engine":"h","level_claimed":{"category":c['level'],"text":c['text'],"design_ref":c['ref']},"level_note":c['note'],"technique":c['technique']})
    else:
        m['not_applicable'].append({"property_id":id,"reason":"check still under construction in this session (designed in DESIGN.md §2); it is claimed as soon as its monitor is silent on the unchanged tree"})
json.dump(m,open('/verif/MANIFEST.json','w'),indent=1)
r=subprocess.run(['python3-vt','-c','import json,jsonschema;jsonschema.validate(json.load(open("/verif/MANIFEST.json")),json.load(open("/root/.vp/MANIFEST.schema.json")));print("manifest valid")'],capture_output=True,text=True)
print(r.stdout.strip().splitlines()[-1] if r.stdout.strip() else r.stderr[-500:])
print("claimed:",len(m['checks']),"pending:",len(m['not_applicable']))
