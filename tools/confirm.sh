#!/bin/bash
# tools/confirm.sh <TAG> — confirm a seeded change produced by a sub-agent.
# Expects: worktree /tmp/mut_<TAG>_wt with the change applied (uncommitted, tracked files only) and the demonstration
# test(s) as untracked *_test.go files whose test functions start with TestSeeded; /tmp/mut_<TAG>_out/patch.diff.
# Confirms: (1) patch.diff equals the worktree's tracked diff, (2) demo fails with the change, (3) demo passes without it,
# (4) the repository's suite (demo skipped) passes with the change. Writes /tmp/mut_<TAG>_out/confirm.log.
tag="$1"; wt=/tmp/mut_${tag}_wt; out=/tmp/mut_${tag}_out; log=$out/confirm.log
export GOPROXY=off GOTOOLCHAIN=local GOSUMDB=off; unset GOFLAGS
cd "$wt" || exit 2
: > $log
git diff > /tmp/mut_${tag}_cur.diff
if ! diff -q <(grep -v '^index ' /tmp/mut_${tag}_cur.diff) <(grep -v '^index ' $out/patch.diff) >/dev/null; then echo "patch.diff differs from worktree diff" | tee -a $log; fi
demos=$(git ls-files --others --exclude-standard | grep '_test.go$')
echo "untracked: $demos" | tee -a $log
pkgs=$(for f in $demos; do echo ./$(dirname $f); done | sort -u | tr '\n' ' ')
go test -mod=mod -vet=off -count=1 -run 'TestSeeded' $pkgs > $out/demo_with.log 2>&1; echo "demo with change: exit $?" | tee -a $log
git diff > /tmp/mut_${tag}_keep.diff; git checkout -- .   # (git stash is shared between worktrees: not used)
go test -mod=mod -vet=off -count=1 -run 'TestSeeded' $pkgs > $out/demo_without.log 2>&1; echo "demo without change: exit $?" | tee -a $log
git apply /tmp/mut_${tag}_keep.diff; rm -f /tmp/mut_${tag}_keep.diff
go test -mod=mod -vet=off -count=1 -timeout ${SUITE_TIMEOUT:-25m} -skip 'TestSeeded' ./... > $out/suite_with.log 2>&1; echo "suite with change (Seeded skipped): exit $?" | tee -a $log
rm -f /tmp/mut_${tag}_cur.diff
