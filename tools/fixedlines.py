#!/usr/bin/env python3
# Rewrites the "fixed:" lines of KNOWN_FINDINGS.txt with the current commit ids of the fix: commits in /repo.
import subprocess,re
log=subprocess.run(['git','-C','/repo','log','--format=%h %s'],capture_output=True,text=True).stdout.splitlines()
def h(sub):
    for l in log:
        if sub in l: return l.split()[0]
    raise SystemExit('no commit for '+sub)
T=[
 ('C20','cache.Find must not serve','cache.Find served the previously recorded (stale) export file with a nil error when the entry was dirty and the re-listing failed (history: prepare(A,B) bump(A) fail-on find(A))'),
 ('C20','cache.Load rejects a negative','cache.Load panicked (makeslice: cap out of range) on a cache file whose dependency count is negative, and accepted counts that overflow n+1'),
 ('C20','cache.Load accepts the empty file','cache.Load rejected ("invalid format") the empty file that Save writes for an empty cache (history: fail-on prepare(A,B) save+load)'),
 ('C17','nil dereference when an untyped integer','nil dereference for every operator/builtin atom with an untyped int > 64 bits when no big-number types are configured (`_ = 1<<100 + i`, every ill-typed `/`): 21 735 atoms'),
 ('C17','an operand without a value','an operand without a value (call to a function without results) dereferenced a nil type in operators, builtins, unsafe.*, conversions, literal elements, comparisons, return, if/for conditions, slices and sends (`_ = 1 + none()`, `[]int{none()}`, `if none() {}`)'),
 ('C17','constants of unrelated kinds','folding an operator over constants of unrelated kinds failed a type assertion inside go/constant (`true & "s"`, `"m" < true`)'),
 ('C17','constant remainder (and division) by zero','constant `% 0` reached constant.BinaryOp and faulted with integer divide by zero (`7 % 0`, `\'\\x00\' % \'\\x00\'` in the XGo configuration)'),
 ('C17','constant shifts with a negative','constant shift with a negative count (makeslice panic), a huge count (memory exhaustion) or a non-integral left operand'),
 ('C17','unary operator on an untyped big integer','unary + - ^ on an untyped int > 64 bits indexed a missing second operand (XGo configuration): index out of range'),
 ('C07','generic function to itself','a generic function passed to itself (Id(Id), Apply(Id, Id)) made type inference substitute T := func(T) T forever: the builder never returned'),
 ('C12','printer parenthesises the type','the forked printer printed a conversion to a receive-only channel type without parentheses: CallExpr{Fun: ChanType{RECV}} came out as `<-chan T(x)` (parses as a receive), e.g. `(<-chan int)(ch)`'),
 ('C13','channel of receive-only channel','the type chan (<-chan T) was printed as `chan <-chan T`, which Go reads as chan<- (chan T) (also chan<- (<-chan T))'),
 ('C14','zero value of a named struct','the zero value of a named struct/array type was a literal of the underlying type: Zero(MyStruct) emitted struct{A int; B string}{} (wrong type under :=) and Zero(strings.Builder) emitted a literal with unexported fields that Go rejects everywhere'),
 ('C15','XGoPackage dependency list','the generated `const XGoPackage = "dep1,dep2,..."` listed the extension-package dependencies of the exported signatures in map-iteration order: identical builds of a library package produced different bytes'),
 ('C09','import is never given a name','import names were only checked against the names some declaration paths record: a parameter, result, uninitialised/range/type-switch variable, closure parameter or package-level declaration named like an import (func f(fmt int) { fmt.Println(fmt) }; var strings int next to strings.ToUpper) left the import un-renamed and the package name shadowed or redeclared'),
 ('C09','force-imported package stays imported','ForceImport(p) followed by a reference to p that is later discarded (ResetStmt) dropped the import of p from the file altogether'),
 ('C11','literal with a unit','a literal with a unit (3s, 250ms) was reported as a time.Duration but emitted as the bare scaled literal, an untyped constant: d := 3s declared an int, fmt.Println(3s) printed 3000000000'),
 ('C11','inline closure call evaluates','an inline closure call bound its arguments to generated variables last-to-first, so f(next(), nextS()) evaluated nextS() before next() (observable through side effects)'),
 ('C01','remainder by a constant zero is rejected','`i % 0` and `i %= 0` (non-constant dividend, constant zero divisor) were accepted and emitted; Go rejects them'),
 ('C05','untyped complex constant to an integer type','AssignableConv(untyped complex constant -> integer type) panicked inside constant.Compare (`var x int8 = 1i`)'),
 ('C01','send statement checks','Send emitted `c <- v` unchecked: sending on a non-channel or receive-only channel, or a value not assignable to the element type (3 458 atoms)'),
 ('C01','slicing an operand that cannot be sliced','Slice accepted every operand type without an explicit case (struct, map, func, chan, interface, named bool ...): `st[1:2]` was emitted (2 700 atoms)'),
 ('C03','variable of a range over an integer','for k := range n gave k the underlying basic type when n has a named integer type (for k := range MyInt(3): builder int, Go MyInt) and int for an untyped rune constant (for k := range \'a\': Go rune); found when declared objects were added to the type oracle'),
 ('C11','fewer than two variables no longer emits a nil node','for k := range udt / for _ := range udt / for k = range udt / for range udt over an enumerator whose Next() yields (key, value, ok) left a nil node in the generated assignment: WriteTo failed with ast.Walk: unexpected node type <nil> (scenarios enum/en2/define k, define _, assign kk, no variables)'),
 ('C11','all blank is emitted with = instead of :=','ForRange("_") / ForRange("_", "_") over an iterator-function enumerator (and over slices, maps, channels, integers) emitted for _ := range x, which Go rejects: no new variables on left side of := (scenarios enum/enf1/define _, enum/enf2/define _,_)'),
 ('C06','overloaded assignment operator','an overloaded assignment operator (methods XGo_AddAssign__0, XGo_AddAssign__1, … on *V) was never applicable: `v += x` matched every candidate against (receiver, x) and reported "too many arguments" although candidate 0 accepts x (operator families, 162 uses in the first quick run)'),
 ('C09','type-parameter constraint of a generic type declaration','a package referenced only from the constraint of a type parameter of a generic TYPE declaration (type G[P util.I] int) was not imported: the import-marking walk skipped TypeSpec.TypeParams (sole-reference position sweep)'),
 ('C01','index expressions check the index operand','Index/IndexRef emitted a[i] without checking i: string or float index into a slice, index not assignable to the map key type, negative or fractional constant index (3 000 atoms)'),
]
lines=open('/verif/KNOWN_FINDINGS.txt').read().splitlines()
out=[l for l in lines if not l.startswith('fixed:')]
# insert fixed lines after the header comments
k=0
while k < len(out) and (out[k].startswith('#') or out[k].strip()==''): k+=1
fixed=[f'fixed: property={p} {h(sub)} {desc}' for p,sub,desc in T]
out=out[:k]+fixed+out[k:]
open('/verif/KNOWN_FINDINGS.txt','w').write('\n'.join(out)+'\n')
print(len(fixed),'fixed lines;', sum(1 for l in out if l.startswith('finding:')),'finding lines')
