// Command stubgo is the stub `go` the C20 monitor puts first on PATH: it implements
// "go list -f=... [-tags=..] -export pkg..." driven by control files in ./ctl and stamps every
// export file with the fingerprint vector it saw at listing time.
package main

import (
	"fmt"
	"os"
	"path/filepath"
	"strings"
	"time"
)

func fsName(p string) string { return strings.ReplaceAll(p, "/", "_") }

func letters(n int) string {
	s := fmt.Sprint(n)
	b := []byte(s)
	for i := range b {
		b[i] = 'a' + (b[i] - '0')
	}
	return string(b)
}

func main() {
	if len(os.Args) < 2 || os.Args[1] != "list" {
		fmt.Fprintln(os.Stderr, "stub go: unsupported", os.Args[1:])
		os.Exit(2)
	}
	args := os.Args[2:]
	if f, err := os.OpenFile("ctl/log", os.O_APPEND|os.O_CREATE|os.O_WRONLY, 0o644); err == nil {
		fmt.Fprintln(f, "list", strings.Join(args, " "))
		f.Close()
	}
	if b, err := os.ReadFile("ctl/delay"); err == nil {
		if d, err := time.ParseDuration(strings.TrimSpace(string(b))); err == nil {
			time.Sleep(d)
		}
	}
	if _, err := os.Stat("ctl/fail"); err == nil {
		fmt.Fprintln(os.Stderr, "stub: go list failed")
		os.Exit(1)
	}
	wd, _ := os.Getwd()
	var out strings.Builder
	for _, a := range args {
		if strings.HasPrefix(a, "-") {
			continue
		}
		eb, err := os.ReadFile("ctl/" + fsName(a) + ".epoch")
		if err != nil {
			fmt.Fprintln(os.Stderr, "stub: no such package", a)
			os.Exit(1)
		}
		db, _ := os.ReadFile("ctl/" + fsName(a) + ".deps")
		deps := strings.Fields(string(db))
		stamp := "data:" + a + ":" + strings.TrimSpace(string(eb))
		for _, d := range deps {
			de, _ := os.ReadFile("ctl/" + fsName(d) + ".epoch")
			stamp += ":" + d + "=" + strings.TrimSpace(string(de))
		}
		ents, _ := os.ReadDir("exp")
		file := filepath.Join(wd, "exp", fsName(a)+"."+letters(os.Getpid())+"x"+letters(len(ents)))
		if err := os.WriteFile(file, []byte(stamp), 0o644); err != nil {
			fmt.Fprintln(os.Stderr, "stub:", err)
			os.Exit(1)
		}
		fmt.Fprintf(&out, "%s\t%s\t[%s]\n", a, file, strings.Join(deps, " "))
	}
	// ctl/hold: keep the listing "in progress" (results computed, not yet reported) until the monitor releases it
	if _, err := os.Stat("ctl/hold"); err == nil {
		os.WriteFile("ctl/held", nil, 0o644)
		for i := 0; i < 5000; i++ {
			if _, err := os.Stat("ctl/hold"); err != nil {
				break
			}
			time.Sleep(time.Millisecond)
		}
	}
	os.Stdout.WriteString(out.String())
}
