// Command vcheck: one binary, one sub-command per property (DESIGN.md §1).
package main

import (
	"encoding/json"
	"fmt"
	"os"
	"strconv"

	"github.com/goplus/gogen/verif/internal/checks"
	"github.com/goplus/gogen/verif/internal/h"
)

func usage() {
	fmt.Println("usage: vcheck run <Cxx> <quick|thorough> | replay <file> | case <Cxx> <tier> <seed> <i> | list")
	os.Exit(2)
}

func main() {
	if len(os.Args) < 2 {
		usage()
	}
	switch os.Args[1] {
	case "list":
		for _, id := range h.IDs() {
			fmt.Println(id)
		}
	case "c15child":
		seed, _ := strconv.ParseUint(os.Args[2], 10, 64)
		i, _ := strconv.Atoi(os.Args[3])
		noise, _ := strconv.Atoi(os.Args[4])
		checks.C15Child(seed, i, noise)
	case "corpus":
		checks.CorpusReport(len(os.Args) > 2)
	case "run":
		if len(os.Args) < 4 {
			usage()
		}
		c := h.Lookup(os.Args[2])
		if c == nil {
			fmt.Println("unknown check", os.Args[2])
			os.Exit(2)
		}
		os.Exit(h.Supervise(c, os.Args[3]))
	case "worker":
		// worker <id> <tier> <seed> <shard> <nshards> <start> <journal>
		c := h.Lookup(os.Args[2])
		seed, _ := strconv.ParseUint(os.Args[4], 10, 64)
		shard, _ := strconv.Atoi(os.Args[5])
		n, _ := strconv.Atoi(os.Args[6])
		start, _ := strconv.Atoi(os.Args[7])
		h.WorkerMain(c, os.Args[3], seed, shard, n, start, os.Args[8])
	case "case":
		if len(os.Args) < 6 {
			usage()
		}
		c := h.Lookup(os.Args[2])
		seed, _ := strconv.ParseUint(os.Args[4], 10, 64)
		i, _ := strconv.Atoi(os.Args[5])
		os.Setenv("VERIF_VERBOSE", "1")
		h.RunInline(c, os.Args[3], seed, i)
	case "replay":
		if len(os.Args) < 3 {
			usage()
		}
		b, err := os.ReadFile(os.Args[2])
		if err != nil {
			fmt.Println(err)
			os.Exit(2)
		}
		var rec struct {
			Property string `json:"property"`
			Tier     string `json:"tier"`
			Seed     uint64 `json:"seed"`
			Case     int    `json:"case"`
			Key      string `json:"key"`
			Kind     string `json:"kind"`
			Detail   string `json:"detail"`
			Input    string `json:"input"`
		}
		if err := json.Unmarshal(b, &rec); err != nil {
			fmt.Println(err)
			os.Exit(2)
		}
		fmt.Printf("replaying %s %s seed=%d case=%d\nrecorded: kind=%s\nkey=%s\n%s\n--- re-execution ---\n", rec.Property, rec.Tier, rec.Seed, rec.Case, rec.Kind, rec.Key, rec.Detail)
		c := h.Lookup(rec.Property)
		if c == nil || rec.Case < 0 {
			fmt.Println("(no re-executable case: whole-run observation, see detail above)")
			return
		}
		os.Setenv("VERIF_VERBOSE", "1")
		h.RunInline(c, rec.Tier, rec.Seed, rec.Case)
	default:
		usage()
	}
}
