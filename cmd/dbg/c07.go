package main

import (
	"fmt"

	"github.com/goplus/gogen/verif/internal/checks"
)

func c07Print(idx []int) {
	for _, i := range idx {
		fmt.Println(i, checks.C07Atom(i))
	}
}
