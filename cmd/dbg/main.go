package main

import (
	"fmt"
	"os"

	"github.com/goplus/gogen/verif/internal/checks"
	"github.com/goplus/gogen/verif/internal/drive"
	"github.com/goplus/gogen/verif/internal/gen"
	"github.com/goplus/gogen/verif/internal/ref"
)

func main() {
	if len(os.Args) > 1 && os.Args[1] == "c11bisect" {
		checks.C11Bisect()
		return
	}
	if len(os.Args) > 1 && os.Args[1] == "c07" {
		c07Print([]int{32, 2771, 4689})
		return
	}
	if len(os.Args) > 2 && os.Args[1] == "c12" {
		c12Main(os.Args[2])
		return
	}
	if len(os.Args) > 1 && os.Args[1] == "faults" {
		faultsMain()
		return
	}
	if len(os.Args) > 2 && os.Args[1] == "gen" {
		genMain()
		return
	}
	u := ref.NewUniverse()
	u.AddSource(gen.FxA, gen.FxASrc)
	u.AddSource(gen.FxB, gen.FxBSrc)
	for _, fn := range os.Args[1:] {
		b, _ := os.ReadFile(fn)
		o := drive.Build(u, []string{string(b)}, drive.Opt{XGo: os.Getenv("XGO") != ""})
		fmt.Println(o.Summary())
	}
}
