package main

import (
	"bytes"
	"fmt"
	goformat "go/format"
	"go/parser"
	goprinter "go/printer"
	"go/token"
	"os"
	"strconv"

	xformat "github.com/goplus/gogen/internal/go/format"
	xprinter "github.com/goplus/gogen/internal/go/printer"

	"github.com/goplus/gogen/verif/internal/drive"
	"github.com/goplus/gogen/verif/internal/gen"
	"github.com/goplus/gogen/verif/internal/h"
	"github.com/goplus/gogen/verif/internal/ref"
)

// dbg gen <n>: generate n programs, report validity (go/types) and builder outcome statistics.
func genMain() {
	n, _ := strconv.Atoi(os.Args[2])
	u := ref.NewUniverse()
	stats := map[string]int{}
	reasons := map[string]int{}
	for i := 0; i < n; i++ {
		r := h.NewRand(1, 99, uint64(i))
		src := gen.Program(r, 1+r.Intn(4), 3, 40)
		o := drive.Build(u, []string{src}, drive.Opt{})
		st := o.Status
		why := o.Msg
		if !o.SrcValid {
			st = "GEN-INVALID"
			why = o.SrcParseErr
			if len(o.SrcErrs) > 0 {
				why = o.SrcErrs[0]
			}
		} else if st == "accepted" {
			switch {
			case len(o.OutErrs) > 0:
				st, why = "out-illtyped", o.OutErrs[0]
			case len(o.DumpDiffs) > 0:
				st, why = "dump-diff", o.DumpDiffs[0]
			case len(o.TypeDiffs) > 0:
				st, why = "type-diff", fmt.Sprint(o.TypeDiffs[0])
			case len(o.CValDiffs) > 0:
				st, why = "cval-diff", fmt.Sprint(o.CValDiffs[0])
			default:
				st = "same"
			}
		}
		stats[st]++
		if st != "same" {
			if len(why) > 150 {
				why = why[:150]
			}
			reasons[st+": "+why]++
			if len(os.Args) > 3 && os.Args[3] == st {
				fmt.Println("=====", i, why)
				fmt.Println(src)
			}
		}
	}
	fmt.Println(stats)
	for k, v := range reasons {
		fmt.Println(v, k)
	}
}

// dbg faults: every fault kind in a few generated programs; lists faults that are not reliably rejected.
func faultsMain() {
	u := ref.NewUniverse()
	for fi, f := range gen.Faults {
		res := map[string]int{}
		for k := 0; k < 6; k++ {
			r := h.NewRand(1, 55, uint64(k))
			g0 := r.Clone()
			_ = g0
			src, fault := progWithFault(r, f, k)
			if fault == "" {
				continue
			}
			o := drive.Build(u, []string{src}, drive.Opt{NoCompare: true})
			st := o.Status
			if o.SrcValid {
				st = "FAULT-IS-VALID-GO"
			} else if st == "accepted" {
				if len(o.OutErrs) > 0 {
					st = "ACCEPTED-ILLTYPED"
				} else {
					st = "accepted-output-ok"
				}
			} else if st == "fe" || st == "crash" {
				st += ":" + o.Msg
			}
			res[st]++
		}
		fmt.Println(fi, f, res)
	}
}

func progWithFault(r *h.Rand, fault string, k int) (string, string) {
	fr := h.NewRand(3, uint64(k))
	// force this fault: temporarily a one-element list
	save := gen.Faults
	gen.Faults = []string{fault, fault}
	defer func() { gen.Faults = save }()
	return gen.ProgramWithFault(r, 2, 3, 40, fr)
}

func c12Main(fn string) {
	src, _ := os.ReadFile(fn)
	f, err := parser.ParseFile(token.NewFileSet(), fn, src, parser.SkipObjectResolution)
	if err != nil {
		fmt.Println(err)
		return
	}
	ref.StripPositions(f)
	var b bytes.Buffer
	err = xformat.Node(&b, token.NewFileSet(), &xprinter.CommentedNodes{Node: f})
	fmt.Println("fork error:", err)
	fmt.Print(b.String())
	fm, err := goformat.Source(b.Bytes())
	fmt.Println("--- gofmt fixed point:", bytes.Equal(fm, b.Bytes()), err)
	if !bytes.Equal(fm, b.Bytes()) {
		fmt.Print(string(fm))
	}
	var sb bytes.Buffer
	(&goprinter.Config{Mode: goprinter.UseSpaces | goprinter.TabIndent, Tabwidth: 8}).Fprint(&sb, token.NewFileSet(), f)
	fmt.Println("--- std printer equals fork:", bytes.Equal(sb.Bytes(), b.Bytes()))
}
