module github.com/goplus/gogen/verif

go 1.23

require (
	github.com/anishathalye/porcupine v1.3.0
	github.com/goplus/gogen v0.0.0
)

replace github.com/goplus/gogen => /repo
