#!/bin/bash
# ./run.sh <Cxx> <quick|thorough>   |   ./run.sh --setup   |   ./run.sh --replay <file>
# Rebuilds the harness against /repo's current working tree on every invocation.
cd "$(dirname "$0")" || exit 2
export GOFLAGS=-mod=mod GOPROXY=off GOSUMDB=off GOTOOLCHAIN=local
export VERIF_ROOT="$(pwd)"
mkdir -p bin evidence
# VERIF_REPO=<dir>: build and run against another checkout of goplus/gogen (used only by tools/ for seeded changes in
# scratch worktrees, from a scratch copy of /verif; the registered commands never set it and always use /repo).
MODFLAG=""
if [ -n "$VERIF_REPO" ] && [ "$VERIF_REPO" != /repo ]; then
  sed "s#=> /repo#=> $VERIF_REPO#" go.mod > bin/alt.go.mod; cp go.sum bin/alt.go.sum
  MODFLAG="-modfile=bin/alt.go.mod"
fi
build() { # $1 = output, rest = flags
  local out="$1"; shift
  local tmp="bin/.$(basename "$out").$$"
  local target=./cmd/vcheck
  [ "$(basename "$out")" = stubgo ] && target=./cmd/stubgo
  if ! go build $MODFLAG "$@" -o "$tmp" $target 2> "bin/.build.$$.log"; then
    cat "bin/.build.$$.log"; rm -f "bin/.build.$$.log" "$tmp"
    echo "BUILD-FAILED: the harness does not compile against /repo's working tree"
    return 2
  fi
  rm -f "bin/.build.$$.log"
  mv -f "$tmp" "$out"
}
case "$1" in
  --setup)
    build bin/vcheck || exit 2
    build bin/vcheck.race -race || exit 2
    build bin/stubgo || exit 2
    bin/vcheck list >/dev/null || exit 2
    echo "setup ok"; exit 0;;
  --replay)
    build bin/vcheck || exit 2
    exec bin/vcheck replay "$2";;
esac
id="$1"; tier="${2:-quick}"
[ -n "$VERIF_TIER" ] && [ -z "$2" ] && tier="$VERIF_TIER"
case "$id" in
  C20) build bin/stubgo || exit 2; build bin/vcheck.race -race || exit 2; exec bin/vcheck.race run "$id" "$tier";;
  C18|C19) build bin/vcheck.race -race || exit 2; exec bin/vcheck.race run "$id" "$tier";;
  *) build bin/vcheck || exit 2; exec bin/vcheck run "$id" "$tier";;
esac
