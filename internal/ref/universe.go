package ref

import (
	"fmt"
	"go/ast"
	"go/build"
	"go/importer"
	"go/parser"
	"go/token"
	"go/types"
	"os"
	"path/filepath"
	"strings"
	"sync"
)

const GogenPath = "github.com/goplus/gogen"

func RepoDir() string {
	if d := os.Getenv("VERIF_REPO"); d != "" {
		return d
	}
	return "/repo"
}

// Universe is one in-memory importer serving the builder and the re-check with the same
// *types.Package objects (DESIGN.md E2). It is safe for use by one goroutine; C18 creates one per goroutine.
type Universe struct {
	Fset *token.FileSet
	mu   sync.Mutex
	pkgs map[string]*types.Package
	src  map[string][]string // fixture packages given as source text
	std  types.Importer
}

func NewUniverse() *Universe {
	fset := token.NewFileSet()
	return &Universe{Fset: fset, pkgs: map[string]*types.Package{}, src: map[string][]string{}, std: importer.ForCompiler(fset, "source", nil)}
}

// AddSource registers a fixture package given as Go source files.
func (u *Universe) AddSource(path string, files ...string) {
	u.src[path] = files
	delete(u.pkgs, path)
}

func (u *Universe) Import(path string) (*types.Package, error) {
	if path == "unsafe" {
		return types.Unsafe, nil
	}
	if p, ok := u.pkgs[path]; ok {
		return p, nil
	}
	var p *types.Package
	var err error
	switch {
	case u.src[path] != nil:
		var files []*ast.File
		for i, s := range u.src[path] {
			f, e := parser.ParseFile(u.Fset, fmt.Sprintf("%s/f%d.go", path, i), s, parser.SkipObjectResolution)
			if e != nil {
				return nil, e
			}
			files = append(files, f)
		}
		conf := types.Config{Importer: u}
		p, err = conf.Check(path, u.Fset, files, nil)
	case path == GogenPath || strings.HasPrefix(path, GogenPath+"/"):
		dir := filepath.Join(RepoDir(), strings.TrimPrefix(path, GogenPath))
		bp, e := build.Default.ImportDir(dir, 0)
		if e != nil {
			return nil, e
		}
		var files []*ast.File
		for _, fn := range bp.GoFiles {
			f, e := parser.ParseFile(u.Fset, filepath.Join(dir, fn), nil, parser.SkipObjectResolution)
			if e != nil {
				return nil, e
			}
			files = append(files, f)
		}
		conf := types.Config{Importer: u}
		p, err = conf.Check(path, u.Fset, files, nil)
	default:
		p, err = u.std.Import(path)
	}
	if err != nil {
		return nil, err
	}
	u.pkgs[path] = p
	return p, nil
}

// Checked is the result of type-checking source files with go/types.
type Checked struct {
	Files   []*ast.File
	Info    *types.Info
	Pkg     *types.Package
	Errs    []string // errors other than unused variable/import
	AllErrs []types.Error
	Parse   error
}

func IsUnusedErr(msg string) bool {
	return strings.Contains(msg, "declared and not used") || strings.Contains(msg, "imported and not used")
}

func NewInfo() *types.Info {
	return &types.Info{Types: map[ast.Expr]types.TypeAndValue{}, Defs: map[*ast.Ident]types.Object{}, Uses: map[*ast.Ident]types.Object{},
		Selections: map[*ast.SelectorExpr]*types.Selection{}, Implicits: map[ast.Node]types.Object{}, Instances: map[*ast.Ident]types.Instance{},
		Scopes: map[ast.Node]*types.Scope{}}
}

// Check parses and type-checks the given source files as one package.
func (u *Universe) Check(pkgPath string, srcs ...string) *Checked {
	c := &Checked{Info: NewInfo()}
	for i, s := range srcs {
		f, err := parser.ParseFile(u.Fset, fmt.Sprintf("%s_%d.go", pkgPath, i), s, parser.SkipObjectResolution)
		if err != nil {
			c.Parse = err
			c.Errs = append(c.Errs, "parse: "+err.Error())
			return c
		}
		c.Files = append(c.Files, f)
	}
	return u.CheckFiles(pkgPath, c)
}

func (u *Universe) CheckFiles(pkgPath string, c *Checked) *Checked {
	conf := types.Config{Importer: u, Error: func(e error) {
		te, ok := e.(types.Error)
		if ok {
			c.AllErrs = append(c.AllErrs, te)
			if IsUnusedErr(te.Msg) {
				return
			}
			c.Errs = append(c.Errs, te.Msg)
			return
		}
		c.Errs = append(c.Errs, e.Error())
	}}
	name := pkgPath
	if len(c.Files) > 0 {
		name = c.Files[0].Name.Name
	}
	_ = name
	c.Pkg, _ = conf.Check(pkgPath, u.Fset, c.Files, c.Info)
	return c
}
