// Package ref holds the reference oracles (DESIGN.md E2): go/types wrappers, canonical typed dump, cross-universe type equality.
package ref

import (
	"fmt"
	"go/ast"
	"go/constant"
	"go/token"
	"go/types"
	"sort"
	"strconv"
	"strings"
)

type Dumper struct {
	Info    *types.Info
	Pkg     *types.Package
	locals  map[types.Object]int
	Exprs   []ast.Expr        // value-expression nodes in canonical order (C03/C04 correspondence)
	Defs    []*ast.Ident      // defining identifiers in canonical order
	Clauses []*ast.CaseClause // type-switch clauses in canonical order
	sb      *strings.Builder
}

// Decl is the canonical form of one package-level declaration together with the nodes visited while dumping it.
type Decl struct {
	Key     string
	Text    string
	Exprs   []ast.Expr
	Defs    []*ast.Ident
	Clauses []*ast.CaseClause
}

func (d *Dumper) mk(key string) Decl {
	return Decl{Key: key, Text: d.sb.String(), Exprs: d.Exprs, Defs: d.Defs, Clauses: d.Clauses}
}

func qual(p *types.Package) string { return p.Path() }

func (d *Dumper) typStr(t types.Type) string {
	if t == nil {
		return "<nil>"
	}
	return types.TypeString(t, func(p *types.Package) string {
		if p == d.Pkg {
			return "P"
		}
		return p.Path()
	})
}

// File returns the canonical declarations of f.
func (d *Dumper) File(f *ast.File) []Decl {
	var out []Decl
	blank := map[string]int{}
	for _, decl := range f.Decls {
		switch x := decl.(type) {
		case *ast.GenDecl:
			if x.Tok == token.IMPORT {
				continue
			}
			for _, s := range x.Specs {
				switch s := s.(type) {
				case *ast.TypeSpec:
					d.begin()
					d.typeSpec(s)
					out = append(out, d.mk("type "+s.Name.Name))
				case *ast.ValueSpec:
					for i, n := range s.Names {
						d.begin()
						d.valueName(x.Tok, s, i)
						key := x.Tok.String() + " " + n.Name
						if n.Name == "_" {
							blank[key]++
							key += "@" + strconv.Itoa(blank[key])
						}
						out = append(out, d.mk(key))
					}
				}
			}
		case *ast.FuncDecl:
			d.begin()
			d.w("(func ")
			key := "func " + x.Name.Name
			if x.Recv != nil && len(x.Recv.List) > 0 {
				d.fieldList(x.Recv)
				key = "method " + d.typStr(d.Info.TypeOf(x.Recv.List[0].Type)) + "." + x.Name.Name
			}
			d.w(x.Name.Name)
			d.funcType(x.Type)
			if x.Body != nil {
				d.block(x.Body.List)
			}
			d.w(")")
			if x.Name.Name == "init" || x.Name.Name == "_" {
				blank[key]++
				key += "@" + strconv.Itoa(blank[key])
			}
			out = append(out, d.mk(key))
		}
	}
	return out
}

func (d *Dumper) begin() {
	d.sb = &strings.Builder{}
	d.locals = map[types.Object]int{}
	d.Exprs, d.Defs, d.Clauses = nil, nil, nil
}
func (d *Dumper) w(s string) { d.sb.WriteString(s) }

func (d *Dumper) typeSpec(s *ast.TypeSpec) {
	o := d.Info.Defs[s.Name]
	d.w("(type ")
	d.def(s.Name)
	if s.Assign != 0 {
		d.w(" = ")
	}
	if s.TypeParams != nil {
		d.fieldList(s.TypeParams)
	}
	if o != nil {
		if s.Assign != 0 {
			d.w(d.typStr(o.Type()))
		} else {
			d.w(d.typStr(o.Type().Underlying()))
		}
	}
	d.w(")")
}

func (d *Dumper) valueName(tok token.Token, s *ast.ValueSpec, i int) {
	n := s.Names[i]
	d.w("(" + tok.String() + " ")
	d.def(n)
	if o := d.Info.Defs[n]; o != nil {
		d.w(":" + d.typStr(o.Type()))
		if c, ok := o.(*types.Const); ok {
			d.w("=" + c.Val().ExactString())
		}
	}
	if s.Type != nil {
		d.w(" explicit-type")
	}
	if tok == token.VAR {
		if len(s.Values) == len(s.Names) {
			d.w(" = ")
			d.expr(s.Values[i])
		} else if len(s.Values) == 1 {
			d.w(" =[" + strconv.Itoa(i) + "] ")
			if i == 0 {
				d.expr(s.Values[0])
			}
		}
	} else if len(s.Values) == len(s.Names) { // const with explicit value: keep expression too
		d.w(" = ")
		d.expr(s.Values[i])
	}
	d.w(")")
}

func (d *Dumper) objID(id *ast.Ident, o types.Object) string {
	if id.Name == "_" {
		return "_"
	}
	if o == nil {
		return "?" + id.Name
	}
	switch o := o.(type) {
	case *types.PkgName:
		return "pkg:" + o.Imported().Path()
	}
	if o.Pkg() == nil {
		return "U." + o.Name()
	}
	if o.Pkg() != d.Pkg {
		return o.Pkg().Path() + "." + o.Name()
	}
	if o.Parent() == d.Pkg.Scope() {
		return "P." + o.Name()
	}
	if v, ok := o.(*types.Var); ok && v.IsField() {
		return "fld." + o.Name()
	}
	if f, ok := o.(*types.Func); ok {
		if sig, ok := f.Type().(*types.Signature); ok && sig.Recv() != nil {
			return "mth." + o.Name()
		}
	}
	idx, ok := d.locals[o]
	if !ok {
		idx = len(d.locals)
		d.locals[o] = idx
	}
	return o.Name() + "#" + strconv.Itoa(idx)
}

func (d *Dumper) def(id *ast.Ident) {
	if id.Name != "_" {
		d.Defs = append(d.Defs, id)
	}
	d.w(d.objID(id, d.Info.Defs[id]))
}

func (d *Dumper) use(id *ast.Ident) {
	o := d.Info.Uses[id]
	if o == nil {
		o = d.Info.Defs[id]
	}
	d.w(d.objID(id, o))
}

func (d *Dumper) fieldList(fl *ast.FieldList) {
	d.w("[")
	if fl != nil {
		for _, f := range fl.List {
			t := d.typStr(d.Info.TypeOf(f.Type))
			if _, ok := f.Type.(*ast.Ellipsis); ok {
				t = "..." + t
			}
			if len(f.Names) == 0 {
				d.w("(_anon " + t + ")")
			}
			for _, n := range f.Names {
				d.w("(")
				d.def(n)
				d.w(" " + t + ")")
			}
		}
	}
	d.w("]")
}

func (d *Dumper) funcType(ft *ast.FuncType) {
	if ft.TypeParams != nil {
		d.w("tparams")
		d.fieldList(ft.TypeParams)
	}
	d.fieldList(ft.Params)
	d.w("->")
	d.fieldList(ft.Results)
}

func (d *Dumper) block(list []ast.Stmt) {
	d.w("{")
	for _, s := range list {
		d.stmt(s)
	}
	d.w("}")
}

func (d *Dumper) stmt(s ast.Stmt) {
	switch s := s.(type) {
	case nil:
		d.w("(nil)")
	case *ast.EmptyStmt:
		d.w("(empty)")
	case *ast.ExprStmt:
		d.w("(expr ")
		d.expr(s.X)
		d.w(")")
	case *ast.DeclStmt:
		g := s.Decl.(*ast.GenDecl)
		for _, sp := range g.Specs {
			switch sp := sp.(type) {
			case *ast.TypeSpec:
				d.typeSpec(sp)
			case *ast.ValueSpec:
				for i := range sp.Names {
					d.valueName(g.Tok, sp, i)
				}
			}
		}
	case *ast.AssignStmt:
		d.w("(assign " + s.Tok.String() + " [")
		// rhs first (evaluation/definition order: rhs is evaluated before new vars are in scope)
		for _, r := range s.Rhs {
			d.expr(r)
			d.w(",")
		}
		d.w("] -> [")
		for _, l := range s.Lhs {
			if id, ok := l.(*ast.Ident); ok && s.Tok == token.DEFINE {
				if o := d.Info.Defs[id]; o != nil {
					d.def(id)
				} else {
					d.use(id)
				}
			} else {
				d.expr(l)
			}
			d.w(",")
		}
		d.w("])")
	case *ast.IncDecStmt:
		d.w("(" + s.Tok.String() + " ")
		d.expr(s.X)
		d.w(")")
	case *ast.GoStmt:
		d.w("(go ")
		d.expr(s.Call)
		d.w(")")
	case *ast.DeferStmt:
		d.w("(defer ")
		d.expr(s.Call)
		d.w(")")
	case *ast.SendStmt:
		d.w("(send ")
		d.expr(s.Chan)
		d.w(" ")
		d.expr(s.Value)
		d.w(")")
	case *ast.ReturnStmt:
		d.w("(return")
		for _, r := range s.Results {
			d.w(" ")
			d.expr(r)
		}
		d.w(")")
	case *ast.BranchStmt:
		d.w("(" + s.Tok.String())
		if s.Label != nil {
			d.w(" ")
			d.use(s.Label)
		}
		d.w(")")
	case *ast.LabeledStmt:
		d.w("(label ")
		d.def(s.Label)
		d.w(" ")
		d.stmt(s.Stmt)
		d.w(")")
	case *ast.BlockStmt:
		d.w("(block")
		d.block(s.List)
		d.w(")")
	case *ast.IfStmt:
		d.w("(if ")
		if s.Init != nil {
			d.stmt(s.Init)
		}
		d.expr(s.Cond)
		d.block(s.Body.List)
		if s.Else != nil {
			d.w(" else ")
			switch e := s.Else.(type) {
			case *ast.BlockStmt:
				// else { if ... } with single if statement == else if
				if len(e.List) == 1 {
					if inner, ok := e.List[0].(*ast.IfStmt); ok {
						d.stmt(inner)
						break
					}
				}
				d.block(e.List)
			default:
				d.stmt(e)
			}
		}
		d.w(")")
	case *ast.ForStmt:
		d.w("(for ")
		if s.Init != nil {
			d.stmt(s.Init)
		}
		d.w(";")
		if s.Cond != nil {
			d.expr(s.Cond)
		}
		d.w(";")
		if s.Post != nil {
			d.stmt(s.Post)
		}
		d.block(s.Body.List)
		d.w(")")
	case *ast.RangeStmt:
		d.w("(range " + s.Tok.String() + " ")
		d.expr(s.X)
		d.w(" -> ")
		for _, kv := range []ast.Expr{s.Key, s.Value} {
			if kv == nil {
				d.w("nil,")
				continue
			}
			if id, ok := kv.(*ast.Ident); ok && s.Tok == token.DEFINE {
				d.def(id)
				if o := d.Info.Defs[id]; o != nil {
					d.w(":" + d.typStr(o.Type()))
				}
			} else {
				d.expr(kv)
			}
			d.w(",")
		}
		d.block(s.Body.List)
		d.w(")")
	case *ast.SwitchStmt:
		d.w("(switch ")
		if s.Init != nil {
			d.stmt(s.Init)
		}
		if s.Tag != nil {
			d.expr(s.Tag)
		}
		for _, c := range s.Body.List {
			cc := c.(*ast.CaseClause)
			d.w("(case")
			for _, e := range cc.List {
				d.w(" ")
				d.expr(e)
			}
			d.block(cc.Body)
			d.w(")")
		}
		d.w(")")
	case *ast.TypeSwitchStmt:
		d.w("(typeswitch ")
		if s.Init != nil {
			d.stmt(s.Init)
		}
		var x ast.Expr
		bind := ""
		switch a := s.Assign.(type) {
		case *ast.AssignStmt:
			bind = a.Lhs[0].(*ast.Ident).Name
			x = a.Rhs[0].(*ast.TypeAssertExpr).X
		case *ast.ExprStmt:
			x = a.X.(*ast.TypeAssertExpr).X
		}
		d.w(bind + " ")
		d.expr(x)
		for _, c := range s.Body.List {
			cc := c.(*ast.CaseClause)
			d.w("(case")
			for _, e := range cc.List {
				d.w(" ")
				if tv, ok := d.Info.Types[e]; ok && tv.IsType() {
					d.w(d.typStr(tv.Type))
				} else {
					d.w("nil")
				}
			}
			if o := d.Info.Implicits[cc]; o != nil {
				d.locals[o] = len(d.locals)
				d.w(" bind:" + d.typStr(o.Type()))
				d.Clauses = append(d.Clauses, cc)
			}
			d.block(cc.Body)
			d.w(")")
		}
		d.w(")")
	case *ast.SelectStmt:
		d.w("(select")
		for _, c := range s.Body.List {
			cc := c.(*ast.CommClause)
			d.w("(comm ")
			if cc.Comm != nil {
				d.stmt(cc.Comm)
			}
			d.block(cc.Body)
			d.w(")")
		}
		d.w(")")
	default:
		d.w(fmt.Sprintf("(?stmt %T)", s))
	}
}

func (d *Dumper) isTypeExpr(e ast.Expr) bool {
	tv, ok := d.Info.Types[e]
	return ok && tv.IsType()
}

func (d *Dumper) expr(e ast.Expr) {
	switch x := e.(type) {
	case *ast.ParenExpr:
		d.expr(x.X)
		return
	}
	if d.isTypeExpr(e) {
		d.w("(T " + d.typStr(d.Info.TypeOf(e)) + ")")
		return
	}
	d.Exprs = append(d.Exprs, e)
	switch x := e.(type) {
	case *ast.BasicLit:
		v := constant.MakeFromLiteral(x.Value, x.Kind, 0)
		d.w("(lit " + x.Kind.String() + " " + v.ExactString() + ")")
	case *ast.Ident:
		d.use(x)
	case *ast.UnaryExpr:
		d.w("(" + x.Op.String() + "u ")
		d.expr(x.X)
		d.w(")")
	case *ast.BinaryExpr:
		d.w("(" + x.Op.String() + " ")
		d.expr(x.X)
		d.w(" ")
		d.expr(x.Y)
		d.w(")")
	case *ast.CallExpr:
		d.w("(call ")
		d.expr(x.Fun)
		for _, a := range x.Args {
			d.w(" ")
			d.expr(a)
		}
		if x.Ellipsis != 0 {
			d.w(" ...")
		}
		d.w(")")
	case *ast.SelectorExpr:
		if id, ok := x.X.(*ast.Ident); ok {
			if pn, ok := d.Info.Uses[id].(*types.PkgName); ok {
				d.w(pn.Imported().Path() + "." + x.Sel.Name)
				return
			}
		}
		d.w("(sel ")
		d.expr(x.X)
		if sel := d.Info.Selections[x]; sel != nil {
			d.w(fmt.Sprintf(" %s:%s %v)", x.Sel.Name, d.typStr(sel.Obj().Type()), sel.Index()))
		} else {
			d.w(" " + x.Sel.Name + ")")
		}
	case *ast.IndexExpr:
		d.w("(index ")
		d.expr(x.X)
		d.w(" ")
		d.expr(x.Index)
		d.w(")")
	case *ast.IndexListExpr:
		d.w("(indexlist ")
		d.expr(x.X)
		for _, ix := range x.Indices {
			d.w(" ")
			d.expr(ix)
		}
		d.w(")")
	case *ast.SliceExpr:
		d.w("(slice ")
		d.expr(x.X)
		for _, ix := range []ast.Expr{x.Low, x.High, x.Max} {
			d.w(" ")
			if ix != nil {
				d.expr(ix)
			} else {
				d.w("nil")
			}
		}
		d.w(")")
	case *ast.StarExpr:
		d.w("(deref ")
		d.expr(x.X)
		d.w(")")
	case *ast.TypeAssertExpr:
		d.w("(assert ")
		d.expr(x.X)
		d.w(" " + d.typStr(d.Info.TypeOf(x.Type)) + ")")
	case *ast.CompositeLit:
		lt := d.Info.TypeOf(x)
		closeAddr := false
		if pt, ok := lt.Underlying().(*types.Pointer); ok && x.Type == nil {
			// an elided element literal of pointer type, []*T{{...}}, is &T{...}: the same program either way
			lt = pt.Elem()
			d.w("(&u ")
			closeAddr = true
		}
		defer func() {
			if closeAddr {
				d.w(")")
			}
		}()
		d.w("(complit " + d.typStr(lt))
		for _, el := range x.Elts {
			d.w(" ")
			if kv, ok := el.(*ast.KeyValueExpr); ok {
				if id, ok := kv.Key.(*ast.Ident); ok {
					if _, isStruct := lt.Underlying().(*types.Struct); isStruct {
						d.w(id.Name + ":")
						d.expr(kv.Value)
						continue
					}
				}
				d.expr(kv.Key)
				d.w(":")
				d.expr(kv.Value)
			} else {
				d.expr(el)
			}
		}
		d.w(")")
	case *ast.FuncLit:
		d.w("(funclit ")
		d.funcType(x.Type)
		d.block(x.Body.List)
		d.w(")")
	case *ast.KeyValueExpr:
		d.expr(x.Key)
		d.w(":")
		d.expr(x.Value)
	default:
		d.w(fmt.Sprintf("(?expr %T)", e))
	}
}

// Compare returns the differences between two declaration lists (package-level order is not significant) and the
// pairs of corresponding declarations whose dumps are equal.
func Compare(a, b []Decl) (diffs []string, pairs [][2]Decl) {
	norm := func(ds []Decl) map[string]Decl {
		m := map[string]Decl{}
		for _, d := range ds {
			m[d.Key] = d
		}
		return m
	}
	ma, mb := norm(a), norm(b)
	keys := map[string]bool{}
	for k := range ma {
		keys[k] = true
	}
	for k := range mb {
		keys[k] = true
	}
	var ks []string
	for k := range keys {
		ks = append(ks, k)
	}
	sort.Strings(ks)
	for _, k := range ks {
		x, okx := ma[k]
		y, oky := mb[k]
		switch {
		case !okx:
			diffs = append(diffs, "extra in output: "+k)
		case !oky:
			diffs = append(diffs, "missing in output: "+k)
		case x.Text != y.Text:
			xs, ys := x.Text, y.Text
			i := 0
			for i < len(xs) && i < len(ys) && xs[i] == ys[i] {
				i++
			}
			lo := i - 60
			if lo < 0 {
				lo = 0
			}
			hi := func(s string) int {
				if i+60 < len(s) {
					return i + 60
				}
				return len(s)
			}
			diffs = append(diffs, fmt.Sprintf("%s:\n      src: …%s\n      out: …%s", k, xs[lo:hi(xs)], ys[lo:hi(ys)]))
		default:
			pairs = append(pairs, [2]Decl{x, y})
		}
	}
	return
}

// InitOrder returns the package-level declarations whose relative order is semantically significant
// (variables with initialisers, init functions), in order.
func InitOrder(ds []Decl) []string {
	var out []string
	for _, d := range ds {
		if strings.HasPrefix(d.Key, "var ") && strings.Contains(d.Text, " = ") || strings.HasPrefix(d.Key, "func init@") {
			k := d.Key
			if i := strings.IndexByte(k, '@'); i >= 0 {
				k = k[:i]
			}
			out = append(out, k)
		}
	}
	return out
}
