package ref

import (
	"go/types"
	"sort"
)

// TypeEq compares types across universes (different *types.Package objects for the package under construction).
func TypeEq(a, b types.Type) bool { return teq(a, b, 0) }

func pkgPath(p *types.Package) string {
	if p == nil {
		return ""
	}
	return p.Path()
}

func teq(a, b types.Type, depth int) bool {
	if depth > 12 {
		return true
	}
	if a == nil || b == nil {
		at, _ := a.(*types.Tuple)
		bt, _ := b.(*types.Tuple)
		return (a == nil || (at != nil && at.Len() == 0) || isNilTuple(a)) && (b == nil || (bt != nil && bt.Len() == 0) || isNilTuple(b))
	}
	a, b = types.Unalias(a), types.Unalias(b)
	switch x := a.(type) {
	case *types.Basic:
		y, ok := b.(*types.Basic)
		return ok && x.Kind() == y.Kind()
	case *types.Named:
		y, ok := b.(*types.Named)
		if !ok || x.Obj().Name() != y.Obj().Name() {
			return false
		}
		// same package path, or both belong to "the package under construction" (path may differ: "" vs "main")
		xp, yp := pkgPath(x.Obj().Pkg()), pkgPath(y.Obj().Pkg())
		if xp != yp && !(isLocalPath(xp) && isLocalPath(yp)) {
			return false
		}
		xa, ya := x.TypeArgs(), y.TypeArgs()
		if xa.Len() != ya.Len() {
			return false
		}
		for i := 0; i < xa.Len(); i++ {
			if !teq(xa.At(i), ya.At(i), depth+1) {
				return false
			}
		}
		return true
	case *types.Pointer:
		y, ok := b.(*types.Pointer)
		return ok && teq(x.Elem(), y.Elem(), depth+1)
	case *types.Slice:
		y, ok := b.(*types.Slice)
		return ok && teq(x.Elem(), y.Elem(), depth+1)
	case *types.Array:
		y, ok := b.(*types.Array)
		return ok && x.Len() == y.Len() && teq(x.Elem(), y.Elem(), depth+1)
	case *types.Map:
		y, ok := b.(*types.Map)
		return ok && teq(x.Key(), y.Key(), depth+1) && teq(x.Elem(), y.Elem(), depth+1)
	case *types.Chan:
		y, ok := b.(*types.Chan)
		return ok && x.Dir() == y.Dir() && teq(x.Elem(), y.Elem(), depth+1)
	case *types.Tuple:
		y, ok := b.(*types.Tuple)
		if !ok || x.Len() != y.Len() {
			return false
		}
		for i := 0; i < x.Len(); i++ {
			if !teq(x.At(i).Type(), y.At(i).Type(), depth+1) {
				return false
			}
		}
		return true
	case *types.Signature:
		y, ok := b.(*types.Signature)
		return ok && x.Variadic() == y.Variadic() && teq(x.Params(), y.Params(), depth+1) && teq(x.Results(), y.Results(), depth+1) &&
			x.TypeParams().Len() == y.TypeParams().Len()
	case *types.Struct:
		y, ok := b.(*types.Struct)
		if !ok || x.NumFields() != y.NumFields() {
			return false
		}
		for i := 0; i < x.NumFields(); i++ {
			f, g := x.Field(i), y.Field(i)
			if f.Name() != g.Name() || f.Embedded() != g.Embedded() || x.Tag(i) != y.Tag(i) || !teq(f.Type(), g.Type(), depth+1) {
				return false
			}
		}
		return true
	case *types.Interface:
		y, ok := b.(*types.Interface)
		if !ok || x.NumMethods() != y.NumMethods() {
			return false
		}
		xm, ym := methods(x), methods(y)
		for i := range xm {
			if xm[i].Name() != ym[i].Name() || !teq(xm[i].Type(), ym[i].Type(), depth+1) {
				return false
			}
		}
		return x.IsComparable() == y.IsComparable()
	case *types.TypeParam:
		y, ok := b.(*types.TypeParam)
		return ok && x.Index() == y.Index() && x.Obj().Name() == y.Obj().Name()
	case *types.Union:
		y, ok := b.(*types.Union)
		if !ok || x.Len() != y.Len() {
			return false
		}
		for i := 0; i < x.Len(); i++ {
			if x.Term(i).Tilde() != y.Term(i).Tilde() || !teq(x.Term(i).Type(), y.Term(i).Type(), depth+1) {
				return false
			}
		}
		return true
	}
	return false
}

func isNilTuple(t types.Type) bool {
	tt, ok := t.(*types.Tuple)
	return ok && tt == nil
}

// LocalPaths are the package paths that denote "the package under construction" on either side.
var LocalPaths = map[string]bool{"": true, "main": true, "foo": true, "p": true, "test": true, "bar": true}

func isLocalPath(p string) bool { return LocalPaths[p] }

func methods(t *types.Interface) []*types.Func {
	ms := make([]*types.Func, t.NumMethods())
	for i := range ms {
		ms[i] = t.Method(i)
	}
	sort.Slice(ms, func(i, j int) bool { return ms[i].Name() < ms[j].Name() })
	return ms
}
