package ref

import (
	"fmt"
	"go/ast"
	"go/token"
	"reflect"
	"sort"
	"strconv"
	"strings"
)

var posType = reflect.TypeOf(token.NoPos)

// syntaxPos lists the token.Pos fields that carry syntax rather than location; StripPositions keeps them as the
// non-zero sentinel gogen itself uses, every other position becomes NoPos (the shape of the trees gogen builds).
var syntaxPos = map[string]bool{"CallExpr.Ellipsis": true, "TypeSpec.Assign": true, "GenDecl.Lparen": true}

// StripPositions removes all position information and all comments from the tree, in place.
func StripPositions(n ast.Node) { stripWalk(reflect.ValueOf(n)) }

func stripWalk(v reflect.Value) {
	switch v.Kind() {
	case reflect.Ptr:
		if v.IsNil() {
			return
		}
		stripWalk(v.Elem())
	case reflect.Interface:
		if v.IsNil() {
			return
		}
		stripWalk(v.Elem())
	case reflect.Slice:
		for i := 0; i < v.Len(); i++ {
			stripWalk(v.Index(i))
		}
	case reflect.Struct:
		t := v.Type()
		for i := 0; i < v.NumField(); i++ {
			f := v.Field(i)
			ft := t.Field(i)
			switch {
			case f.Type() == posType:
				if f.CanSet() {
					if syntaxPos[t.Name()+"."+ft.Name] && f.Int() != 0 {
						f.SetInt(1)
					} else {
						f.SetInt(0)
					}
				}
			case ft.Type == reflect.TypeOf((*ast.CommentGroup)(nil)), ft.Type == reflect.TypeOf((*ast.Object)(nil)), ft.Type == reflect.TypeOf((*ast.Scope)(nil)):
				if f.CanSet() {
					f.Set(reflect.Zero(ft.Type))
				}
			case ft.Type == reflect.TypeOf([]*ast.CommentGroup(nil)), ft.Type == reflect.TypeOf([]*ast.Ident(nil)) && ft.Name == "Unresolved":
				if f.CanSet() {
					f.Set(reflect.Zero(ft.Type))
				}
			case t.Name() == "File" && ft.Name == "Imports":
				// derived list; leave
			default:
				stripWalk(f)
			}
		}
	}
}

// SortImports sorts the specs of every import declaration by path (what gogen emits; go/format sorts them anyway).
func SortImports(f *ast.File) {
	for _, d := range f.Decls {
		if g, ok := d.(*ast.GenDecl); ok && g.Tok == token.IMPORT {
			sort.SliceStable(g.Specs, func(i, j int) bool {
				return g.Specs[i].(*ast.ImportSpec).Path.Value < g.Specs[j].(*ast.ImportSpec).Path.Value
			})
		}
	}
}

// ASTDump renders the structure of a syntax tree: node types, operators, literals, identifiers and nesting.
// Positions, comments, redundant parentheses and (non-labeled) empty statements are not part of it.
func ASTDump(n any) string {
	var sb strings.Builder
	dumpWalk(&sb, reflect.ValueOf(n))
	return sb.String()
}

func dumpWalk(sb *strings.Builder, v reflect.Value) {
	switch v.Kind() {
	case reflect.Ptr:
		if v.IsNil() {
			sb.WriteString("nil")
			return
		}
		if p, ok := v.Interface().(*ast.ParenExpr); ok {
			dumpWalk(sb, reflect.ValueOf(p.X))
			return
		}
		dumpWalk(sb, v.Elem())
	case reflect.Interface:
		if v.IsNil() {
			sb.WriteString("nil")
			return
		}
		dumpWalk(sb, v.Elem())
	case reflect.Slice:
		sb.WriteString("[")
		for i := 0; i < v.Len(); i++ {
			e := v.Index(i)
			if e.Kind() == reflect.Interface && !e.IsNil() {
				if es, ok := e.Interface().(*ast.EmptyStmt); ok && es != nil {
					continue
				}
			}
			dumpWalk(sb, e)
			sb.WriteString(",")
		}
		sb.WriteString("]")
	case reflect.Struct:
		t := v.Type()
		sb.WriteString("(" + t.Name())
		for i := 0; i < v.NumField(); i++ {
			f := v.Field(i)
			ft := t.Field(i)
			switch {
			case f.Type() == posType:
				if syntaxPos[t.Name()+"."+ft.Name] {
					single := true
					if t.Name() == "GenDecl" {
						single = v.FieldByName("Specs").Len() == 1
					}
					if single {
						fmt.Fprintf(sb, " %s=%v", ft.Name, f.Int() != 0)
					}
				}
			case ft.Type == reflect.TypeOf((*ast.CommentGroup)(nil)), ft.Type == reflect.TypeOf((*ast.Object)(nil)), ft.Type == reflect.TypeOf((*ast.Scope)(nil)),
				ft.Type == reflect.TypeOf([]*ast.CommentGroup(nil)):
			case t.Name() == "File" && (ft.Name == "Imports" || ft.Name == "Unresolved" || ft.Name == "GoVersion"):
			case t.Name() == "EmptyStmt" && ft.Name == "Implicit":
			default:
				sb.WriteString(" " + ft.Name + "=")
				dumpWalk(sb, f)
			}
		}
		sb.WriteString(")")
	case reflect.String:
		sb.WriteString(strconv.Quote(v.String()))
	case reflect.Bool:
		fmt.Fprint(sb, v.Bool())
	case reflect.Int, reflect.Int64, reflect.Int32, reflect.Int8, reflect.Int16:
		if tk, ok := v.Interface().(token.Token); ok {
			sb.WriteString(tk.String())
		} else {
			fmt.Fprint(sb, v.Int())
		}
	default:
		fmt.Fprintf(sb, "?%s", v.Kind())
	}
}
