// Package fe is the front end (DESIGN.md E1): Go source (subset) -> gogen CodeBuilder operations, syntax-directed,
// using only gogen's own scopes for name resolution (no information from go/types).
package fe

import (
	"fmt"
	"go/ast"
	"go/constant"
	"go/token"
	"go/types"
	"strconv"

	"github.com/goplus/gogen"
)

type Unsupported struct{ What string }

func (u *Unsupported) Error() string { return "unsupported: " + u.What }

func unsupported(format string, args ...any) {
	panic(&Unsupported{fmt.Sprintf(format, args...)})
}

type FEError struct{ Msg string }

func (e *FEError) Error() string { return "front-end: " + e.Msg }

func feError(format string, args ...any) {
	panic(&FEError{fmt.Sprintf(format, args...)})
}

type Rec struct {
	Type types.Type
	CVal constant.Value
}

type Compiler struct {
	Recs    map[ast.Expr]Rec
	Pkg     *gogen.Package
	cb      *gogen.CodeBuilder
	imports map[string]string // local name -> path
	tparams []map[string]*types.TypeParam
	labels  map[string]*gogen.Label
	Trace   func(op string)
}

type funcBody struct {
	fn   *gogen.Func
	decl *ast.FuncDecl
	tps  map[string]*types.TypeParam
}

func (c *Compiler) op(name string) {
	if c.Trace != nil {
		c.Trace(name)
	}
}

// CompileFile drives pkg with the declarations of f.
func (c *Compiler) CompileFile(f *ast.File) {
	c.cb = c.Pkg.CB()
	c.imports = map[string]string{}
	for _, im := range f.Imports {
		path, _ := strconv.Unquote(im.Path.Value)
		name := ""
		if im.Name != nil {
			name = im.Name.Name
		}
		if name == "_" {
			c.Pkg.ForceImport(path)
			continue
		}
		if name == "" {
			pr := c.Pkg.Import(path)
			name = pr.Types.Name()
		}
		c.imports[name] = path
	}
	// pass 0: declare all package-level type names that are referenced before declared? (prototype: in order)
	var bodies []funcBody
	// pre-declare type names in order of appearance within each GenDecl, InitType afterwards
	for _, d := range f.Decls {
		switch d := d.(type) {
		case *ast.GenDecl:
			switch d.Tok {
			case token.IMPORT:
			case token.TYPE:
				c.typeDecl(d, true)
			case token.VAR:
				c.varDecl(d)
			case token.CONST:
				c.constDecl(d, true)
			}
		case *ast.FuncDecl:
			bodies = append(bodies, c.funcDecl(d))
		}
	}
	for _, b := range bodies {
		if b.decl.Body == nil {
			continue
		}
		c.funcBody(b)
	}
}

// ---------------------------------------------------------------------------- types

func (c *Compiler) lookupTParam(name string) *types.TypeParam {
	for i := len(c.tparams) - 1; i >= 0; i-- {
		if tp, ok := c.tparams[i][name]; ok {
			return tp
		}
	}
	return nil
}

func (c *Compiler) lookup(name string) types.Object {
	_, o := c.cb.Scope().LookupParent(name, token.NoPos)
	return o
}

func (c *Compiler) pkgRef(x ast.Expr) (gogen.PkgRef, bool) {
	if id, ok := x.(*ast.Ident); ok {
		if path, ok := c.imports[id.Name]; ok {
			if c.lookupTParam(id.Name) == nil {
				if o := c.lookup(id.Name); o == nil || o.Parent() == types.Universe {
					return c.Pkg.Import(path), true
				}
			}
		}
	}
	return gogen.PkgRef{}, false
}

func (c *Compiler) isType(e ast.Expr) bool {
	switch e := e.(type) {
	case *ast.ArrayType, *ast.MapType, *ast.ChanType, *ast.FuncType, *ast.StructType, *ast.InterfaceType:
		return true
	case *ast.ParenExpr:
		return c.isType(e.X)
	case *ast.StarExpr:
		return c.isType(e.X)
	case *ast.Ident:
		if c.lookupTParam(e.Name) != nil {
			return true
		}
		_, ok := c.lookup(e.Name).(*types.TypeName)
		return ok
	case *ast.SelectorExpr:
		if pr, ok := c.pkgRef(e.X); ok {
			_, ok := pr.TryRef(e.Sel.Name).(*types.TypeName)
			return ok
		}
	case *ast.IndexExpr:
		return c.isType(e.X)
	case *ast.IndexListExpr:
		return c.isType(e.X)
	}
	return false
}

func (c *Compiler) toType(e ast.Expr) types.Type {
	switch e := e.(type) {
	case *ast.Ident:
		if tp := c.lookupTParam(e.Name); tp != nil {
			return tp
		}
		o := c.lookup(e.Name)
		if o == nil {
			feError("undefined: %s", e.Name)
		}
		tn, ok := o.(*types.TypeName)
		if !ok {
			feError("%s is not a type", e.Name)
		}
		return tn.Type()
	case *ast.ParenExpr:
		return c.toType(e.X)
	case *ast.StarExpr:
		return types.NewPointer(c.toType(e.X))
	case *ast.ArrayType:
		if e.Len == nil {
			return types.NewSlice(c.toType(e.Elt))
		}
		if _, ok := e.Len.(*ast.Ellipsis); ok {
			return types.NewArray(c.toType(e.Elt), -1)
		}
		// constant length: evaluate through the builder
		c.expr(e.Len)
		el := c.cb.InternalStack().Pop()
		if el.CVal == nil {
			feError("array length is not constant")
		}
		n, err := strconv.ParseInt(el.CVal.ExactString(), 10, 64)
		if err != nil {
			feError("bad array length %v", el.CVal)
		}
		return types.NewArray(c.toType(e.Elt), n)
	case *ast.MapType:
		return types.NewMap(c.toType(e.Key), c.toType(e.Value))
	case *ast.ChanType:
		dir := types.SendRecv
		switch e.Dir {
		case ast.SEND:
			dir = types.SendOnly
		case ast.RECV:
			dir = types.RecvOnly
		}
		return types.NewChan(dir, c.toType(e.Value))
	case *ast.FuncType:
		return c.toSig(nil, e, nil)
	case *ast.StructType:
		var flds []*types.Var
		var tags []string
		for _, f := range e.Fields.List {
			t := c.toType(f.Type)
			tag := ""
			if f.Tag != nil {
				tag, _ = strconv.Unquote(f.Tag.Value)
			}
			if len(f.Names) == 0 {
				flds = append(flds, types.NewField(token.NoPos, c.Pkg.Types, embedName(f.Type), t, true))
				tags = append(tags, tag)
			}
			for _, n := range f.Names {
				flds = append(flds, types.NewField(token.NoPos, c.Pkg.Types, n.Name, t, false))
				tags = append(tags, tag)
			}
		}
		return types.NewStruct(flds, tags)
	case *ast.InterfaceType:
		var methods []*types.Func
		var embeds []types.Type
		for _, f := range e.Methods.List {
			if len(f.Names) == 0 {
				embeds = append(embeds, c.toConstraintElem(f.Type))
				continue
			}
			sig := c.toSig(nil, f.Type.(*ast.FuncType), nil)
			for _, n := range f.Names {
				methods = append(methods, types.NewFunc(token.NoPos, c.Pkg.Types, n.Name, sig))
			}
		}
		if len(methods) == 0 && len(embeds) == 0 {
			return gogen.TyEmptyInterface
		}
		return types.NewInterfaceType(methods, embeds).Complete()
	case *ast.SelectorExpr:
		if pr, ok := c.pkgRef(e.X); ok {
			o := pr.TryRef(e.Sel.Name)
			if o == nil {
				feError("undefined: %s.%s", pr.Path(), e.Sel.Name)
			}
			return o.Type()
		}
		feError("bad qualified type")
	case *ast.Ellipsis:
		return types.NewSlice(c.toType(e.Elt))
	case *ast.IndexExpr:
		return c.Pkg.Instantiate(c.toType(e.X), []types.Type{c.toType(e.Index)})
	case *ast.IndexListExpr:
		var targs []types.Type
		for _, ix := range e.Indices {
			targs = append(targs, c.toType(ix))
		}
		return c.Pkg.Instantiate(c.toType(e.X), targs)
	}
	unsupported("type %T", e)
	return nil
}

func (c *Compiler) toConstraintElem(e ast.Expr) types.Type {
	switch e := e.(type) {
	case *ast.BinaryExpr:
		if e.Op == token.OR {
			var terms []*types.Term
			var walk func(x ast.Expr)
			walk = func(x ast.Expr) {
				if b, ok := x.(*ast.BinaryExpr); ok && b.Op == token.OR {
					walk(b.X)
					walk(b.Y)
					return
				}
				terms = append(terms, c.toTerm(x))
			}
			walk(e)
			return types.NewUnion(terms)
		}
	case *ast.UnaryExpr:
		if e.Op == token.TILDE {
			return types.NewUnion([]*types.Term{c.toTerm(e)})
		}
	}
	return c.toType(e)
}

func (c *Compiler) toTerm(e ast.Expr) *types.Term {
	if u, ok := e.(*ast.UnaryExpr); ok && u.Op == token.TILDE {
		return types.NewTerm(true, c.toType(u.X))
	}
	return types.NewTerm(false, c.toType(e))
}

func embedName(e ast.Expr) string {
	switch e := e.(type) {
	case *ast.Ident:
		return e.Name
	case *ast.StarExpr:
		return embedName(e.X)
	case *ast.SelectorExpr:
		return e.Sel.Name
	case *ast.IndexExpr:
		return embedName(e.X)
	case *ast.IndexListExpr:
		return embedName(e.X)
	case *ast.ParenExpr:
		return embedName(e.X)
	}
	return ""
}

func (c *Compiler) toTuple(fl *ast.FieldList) (*types.Tuple, bool) {
	if fl == nil {
		return nil, false
	}
	var vars []*types.Var
	variadic := false
	for _, f := range fl.List {
		if _, ok := f.Type.(*ast.Ellipsis); ok {
			variadic = true
		}
		t := c.toType(f.Type)
		if len(f.Names) == 0 {
			vars = append(vars, c.Pkg.NewParam(token.NoPos, "", t, false))
		}
		for _, n := range f.Names {
			vars = append(vars, c.Pkg.NewParam(token.NoPos, n.Name, t, false))
		}
	}
	if len(vars) == 0 {
		return nil, false
	}
	return types.NewTuple(vars...), variadic
}

func (c *Compiler) toTParams(fl *ast.FieldList) ([]*types.TypeParam, map[string]*types.TypeParam) {
	if fl == nil {
		return nil, nil
	}
	m := map[string]*types.TypeParam{}
	var list []*types.TypeParam
	type pend struct {
		tp *types.TypeParam
		e  ast.Expr
	}
	var pends []pend
	for _, f := range fl.List {
		for _, n := range f.Names {
			tp := types.NewTypeParam(types.NewTypeName(token.NoPos, c.Pkg.Types, n.Name, nil), nil)
			m[n.Name] = tp
			list = append(list, tp)
			pends = append(pends, pend{tp, f.Type})
		}
	}
	c.tparams = append(c.tparams, m)
	for _, p := range pends {
		ct := c.toConstraintElem(p.e)
		if _, ok := ct.Underlying().(*types.Interface); !ok {
			it := types.NewInterfaceType(nil, []types.Type{ct})
			it.MarkImplicit()
			ct = it
		}
		p.tp.SetConstraint(ct)
	}
	c.tparams = c.tparams[:len(c.tparams)-1]
	return list, m
}

func (c *Compiler) toSig(recv *types.Var, ft *ast.FuncType, recvTP []*types.TypeParam) *types.Signature {
	tps, m := c.toTParams(ft.TypeParams)
	if m != nil {
		c.tparams = append(c.tparams, m)
		defer func() { c.tparams = c.tparams[:len(c.tparams)-1] }()
	}
	params, variadic := c.toTuple(ft.Params)
	results, _ := c.toTuple(ft.Results)
	return types.NewSignatureType(recv, recvTP, tps, params, results, variadic)
}

// ---------------------------------------------------------------------------- decls

func (c *Compiler) typeDecl(d *ast.GenDecl, pkgLevel bool) {
	var defs *gogen.TypeDefs
	if pkgLevel {
		defs = c.Pkg.NewTypeDefs()
	} else {
		defs = c.cb.NewTypeDefs()
	}
	c.op("NewTypeDefs")
	type pend struct {
		decl *gogen.TypeDecl
		spec *ast.TypeSpec
	}
	var pends []pend
	for _, s := range d.Specs {
		ts := s.(*ast.TypeSpec)
		if ts.Assign != 0 {
			defs.AliasType(ts.Name.Name, c.toType(ts.Type))
			c.op("AliasType")
			continue
		}
		pends = append(pends, pend{defs.NewType(ts.Name.Name), ts})
		c.op("NewType")
	}
	for _, p := range pends {
		tps, m := c.toTParams(p.spec.TypeParams)
		if m != nil {
			c.tparams = append(c.tparams, m)
		}
		p.decl.InitType(c.Pkg, c.toType(p.spec.Type), tps...)
		c.op("InitType")
		if m != nil {
			c.tparams = c.tparams[:len(c.tparams)-1]
		}
	}
	defs.Complete()
}

func (c *Compiler) varDecl(d *ast.GenDecl) {
	for _, s := range d.Specs {
		vs := s.(*ast.ValueSpec)
		var typ types.Type
		if vs.Type != nil {
			typ = c.toType(vs.Type)
		}
		names := identNames(vs.Names)
		if len(vs.Values) == 0 {
			c.cb.NewVar(typ, names...)
			c.op("NewVar")
			continue
		}
		c.cb.NewVarStart(typ, names...)
		c.op("NewVarStart")
		for _, v := range vs.Values {
			c.exprN(v, len(names), len(vs.Values))
		}
		c.cb.EndInit(len(vs.Values))
		c.op("EndInit")
	}
}

func (c *Compiler) constDecl(d *ast.GenDecl, pkgLevel bool) {
	defs := c.Pkg.NewConstDefs(c.cb.Scope())
	c.op("NewConstDefs")
	var last *ast.ValueSpec
	for i, s := range d.Specs {
		vs := s.(*ast.ValueSpec)
		names := identNames(vs.Names)
		if len(vs.Values) == 0 && last != nil {
			defs.Next(i, token.NoPos, names...)
			c.op("ConstNext")
			continue
		}
		last = vs
		var typ types.Type
		if vs.Type != nil {
			typ = c.toType(vs.Type)
		}
		vals := vs.Values
		defs.New(func(cb *gogen.CodeBuilder) int {
			for _, v := range vals {
				c.expr(v)
			}
			return len(vals)
		}, i, token.NoPos, typ, names...)
		c.op("ConstNew")
	}
}

func identNames(ids []*ast.Ident) []string {
	r := make([]string, len(ids))
	for i, id := range ids {
		r[i] = id.Name
	}
	return r
}

func (c *Compiler) funcDecl(d *ast.FuncDecl) funcBody {
	var recv *types.Var
	var recvTP []*types.TypeParam
	var tpm map[string]*types.TypeParam
	if d.Recv != nil && len(d.Recv.List) == 1 {
		f := d.Recv.List[0]
		rt := f.Type
		star := false
		if s, ok := rt.(*ast.StarExpr); ok {
			rt, star = s.X, true
		}
		var base types.Type
		switch x := rt.(type) {
		case *ast.IndexExpr, *ast.IndexListExpr:
			var bx ast.Expr
			var idx []ast.Expr
			if ie, ok := x.(*ast.IndexExpr); ok {
				bx, idx = ie.X, []ast.Expr{ie.Index}
			} else {
				il := x.(*ast.IndexListExpr)
				bx, idx = il.X, il.Indices
			}
			named := c.toType(bx).(*types.Named)
			tpm = map[string]*types.TypeParam{}
			for i, ix := range idx {
				name := ix.(*ast.Ident).Name
				tp := types.NewTypeParam(types.NewTypeName(token.NoPos, c.Pkg.Types, name, nil), named.TypeParams().At(i).Constraint())
				tpm[name] = tp
				recvTP = append(recvTP, tp)
			}
			base = named
		default:
			base = c.toType(rt)
		}
		if star {
			base = types.NewPointer(base)
		}
		name := ""
		if len(f.Names) == 1 {
			name = f.Names[0].Name
		}
		recv = c.Pkg.NewParam(token.NoPos, name, base, false)
	}
	if tpm != nil {
		c.tparams = append(c.tparams, tpm)
	}
	sig := c.toSig(recv, d.Type, recvTP)
	if tpm != nil {
		c.tparams = c.tparams[:len(c.tparams)-1]
	}
	if d.Body == nil {
		fn := c.Pkg.NewFuncDecl(token.NoPos, d.Name.Name, sig)
		c.op("NewFuncDecl")
		return funcBody{fn: fn, decl: d}
	}
	fn, err := c.Pkg.NewFuncWith(token.NoPos, d.Name.Name, sig, nil)
	c.op("NewFuncWith")
	if err != nil {
		panic(err)
	}
	// body type params
	_, m := c.toTParamsLookup(sig, d.Type.TypeParams)
	if tpm != nil {
		if m == nil {
			m = map[string]*types.TypeParam{}
		}
		for k, v := range tpm {
			m[k] = v
		}
	}
	return funcBody{fn: fn, decl: d, tps: m}
}

// toTParamsLookup maps declared type-parameter names to the TypeParams of sig.
func (c *Compiler) toTParamsLookup(sig *types.Signature, fl *ast.FieldList) ([]*types.TypeParam, map[string]*types.TypeParam) {
	if fl == nil {
		return nil, nil
	}
	m := map[string]*types.TypeParam{}
	var list []*types.TypeParam
	i := 0
	for _, f := range fl.List {
		for _, n := range f.Names {
			tp := sig.TypeParams().At(i)
			m[n.Name] = tp
			list = append(list, tp)
			i++
		}
	}
	return list, m
}

func (c *Compiler) funcBody(b funcBody) {
	if b.tps != nil {
		c.tparams = append(c.tparams, b.tps)
		defer func() { c.tparams = c.tparams[:len(c.tparams)-1] }()
	}
	c.cb = b.fn.BodyStart(c.Pkg)
	c.op("BodyStart")
	c.withLabels(b.decl.Body, func() {
		c.stmts(b.decl.Body.List)
	})
	c.cb.End(b.decl)
	c.op("End")
}

func (c *Compiler) withLabels(body *ast.BlockStmt, f func()) {
	old := c.labels
	c.labels = map[string]*gogen.Label{}
	ast.Inspect(body, func(n ast.Node) bool {
		switch n := n.(type) {
		case *ast.FuncLit:
			return false
		case *ast.LabeledStmt:
			if l := c.cb.NewLabel(token.NoPos, token.NoPos, n.Label.Name); l != nil {
				if _, dup := c.labels[n.Label.Name]; !dup {
					c.labels[n.Label.Name] = l
				}
			}
			c.op("NewLabel")
		}
		return true
	})
	f()
	c.labels = old
}

// ---------------------------------------------------------------------------- statements

type Imbalance struct{ Msg string }

func (c *Compiler) stmts(list []ast.Stmt) {
	for _, s := range list {
		n0 := c.cb.InternalStack().Len()
		sc0, fn0, vb0 := c.cb.Scope(), c.cb.Func(), c.cb.InVBlock()
		c.stmt(s)
		if n1 := c.cb.InternalStack().Len(); n1 != n0 {
			panic(&Imbalance{fmt.Sprintf("stack %d -> %d across %T", n0, n1, s)})
		}
		if c.cb.Scope() != sc0 || c.cb.Func() != fn0 || c.cb.InVBlock() != vb0 {
			panic(&Imbalance{fmt.Sprintf("scope/func/vblock changed across %T", s)})
		}
	}
}

func (c *Compiler) label(id *ast.Ident) *gogen.Label {
	if id == nil {
		return nil
	}
	l, ok := c.labels[id.Name]
	if !ok {
		feError("label %s not defined", id.Name)
	}
	return l
}

func (c *Compiler) stmt(s ast.Stmt) {
	cb := c.cb
	switch s := s.(type) {
	case *ast.EmptyStmt:
	case *ast.ExprStmt:
		c.expr(s.X)
		cb.EndStmt()
		c.op("EndStmt")
	case *ast.DeclStmt:
		d := s.Decl.(*ast.GenDecl)
		switch d.Tok {
		case token.VAR:
			c.varDecl(d)
		case token.CONST:
			c.constDecl(d, false)
		case token.TYPE:
			c.typeDecl(d, false)
		}
	case *ast.AssignStmt:
		c.assign(s)
	case *ast.IncDecStmt:
		c.lhs(s.X)
		cb.IncDec(s.Tok)
		c.op("IncDec")
	case *ast.GoStmt:
		c.expr(s.Call)
		cb.Go()
		c.op("Go")
	case *ast.DeferStmt:
		c.expr(s.Call)
		cb.Defer()
		c.op("Defer")
	case *ast.SendStmt:
		c.expr(s.Chan)
		c.expr(s.Value)
		cb.Send()
		c.op("Send")
	case *ast.ReturnStmt:
		for _, r := range s.Results {
			c.expr(r)
		}
		cb.Return(len(s.Results))
		c.op("Return")
	case *ast.BranchStmt:
		switch s.Tok {
		case token.BREAK:
			cb.Break(c.label(s.Label))
		case token.CONTINUE:
			cb.Continue(c.label(s.Label))
		case token.GOTO:
			cb.Goto(c.label(s.Label))
		case token.FALLTHROUGH:
			cb.Fallthrough()
		}
		c.op("Branch")
	case *ast.LabeledStmt:
		cb.Label(c.label(s.Label))
		c.op("Label")
		c.stmt(s.Stmt)
	case *ast.BlockStmt:
		cb.Block()
		c.op("Block")
		c.stmts(s.List)
		cb.End()
		c.op("End")
	case *ast.IfStmt:
		c.ifStmt(s)
	case *ast.ForStmt:
		cb.For()
		c.op("For")
		if s.Init != nil {
			c.stmt(s.Init)
		}
		if s.Cond != nil {
			c.expr(s.Cond)
		} else {
			cb.None()
		}
		cb.Then()
		c.op("Then")
		c.stmts(s.Body.List)
		if s.Post != nil {
			cb.Post()
			c.op("Post")
			c.stmt(s.Post)
		}
		cb.End()
		c.op("End")
	case *ast.RangeStmt:
		c.rangeStmt(s)
	case *ast.SwitchStmt:
		cb.Switch()
		c.op("Switch")
		if s.Init != nil {
			c.stmt(s.Init)
		}
		if s.Tag != nil {
			c.expr(s.Tag)
		} else {
			cb.None()
		}
		cb.Then()
		c.op("Then")
		for _, cl := range s.Body.List {
			cc := cl.(*ast.CaseClause)
			cb.Case()
			c.op("Case")
			for _, e := range cc.List {
				c.expr(e)
			}
			cb.Then()
			c.op("Then")
			c.stmts(cc.Body)
			cb.End()
			c.op("End")
		}
		cb.End()
		c.op("End")
	case *ast.TypeSwitchStmt:
		c.typeSwitch(s)
	case *ast.SelectStmt:
		cb.Select()
		c.op("Select")
		for _, cl := range s.Body.List {
			cc := cl.(*ast.CommClause)
			cb.CommCase()
			c.op("CommCase")
			if cc.Comm != nil {
				c.stmt(cc.Comm)
			}
			cb.Then()
			c.op("Then")
			c.stmts(cc.Body)
			cb.End()
			c.op("End")
		}
		cb.End()
		c.op("End")
	default:
		unsupported("stmt %T", s)
	}
}

func (c *Compiler) ifStmt(s *ast.IfStmt) {
	cb := c.cb
	cb.If()
	c.op("If")
	if s.Init != nil {
		c.stmt(s.Init)
	}
	c.expr(s.Cond)
	cb.Then()
	c.op("Then")
	c.stmts(s.Body.List)
	if s.Else != nil {
		cb.Else()
		c.op("Else")
		switch e := s.Else.(type) {
		case *ast.BlockStmt:
			c.stmts(e.List)
		case *ast.IfStmt:
			c.ifStmt(e)
		}
	}
	cb.End()
	c.op("End")
}

func (c *Compiler) rangeStmt(s *ast.RangeStmt) {
	cb := c.cb
	if s.Tok == token.DEFINE {
		var names []string
		if s.Key != nil {
			names = append(names, s.Key.(*ast.Ident).Name)
		}
		if s.Value != nil {
			names = append(names, s.Value.(*ast.Ident).Name)
		}
		cb.ForRange(names...)
		c.op("ForRange")
		c.expr(s.X)
	} else {
		cb.ForRange()
		c.op("ForRange")
		if s.Key != nil {
			c.lhs(s.Key)
		}
		if s.Value != nil {
			c.lhs(s.Value)
		}
		c.expr(s.X)
	}
	cb.RangeAssignThen(token.NoPos)
	c.op("RangeAssignThen")
	c.stmts(s.Body.List)
	cb.End()
	c.op("End")
}

func (c *Compiler) typeSwitch(s *ast.TypeSwitchStmt) {
	cb := c.cb
	name := ""
	var x ast.Expr
	switch a := s.Assign.(type) {
	case *ast.AssignStmt:
		name = a.Lhs[0].(*ast.Ident).Name
		x = a.Rhs[0].(*ast.TypeAssertExpr).X
	case *ast.ExprStmt:
		x = a.X.(*ast.TypeAssertExpr).X
	}
	cb.TypeSwitch(name)
	c.op("TypeSwitch")
	if s.Init != nil {
		c.stmt(s.Init)
	}
	c.expr(x)
	cb.TypeAssertThen()
	c.op("TypeAssertThen")
	for _, cl := range s.Body.List {
		cc := cl.(*ast.CaseClause)
		cb.TypeCase()
		c.op("TypeCase")
		for _, e := range cc.List {
			if id, ok := e.(*ast.Ident); ok && id.Name == "nil" && c.isUniverse("nil") {
				cb.Val(nil)
			} else {
				cb.Typ(c.toType(e))
			}
		}
		cb.Then()
		c.op("Then")
		c.stmts(cc.Body)
		cb.End()
		c.op("End")
	}
	cb.End()
	c.op("End")
}

func (c *Compiler) isUniverse(name string) bool {
	o := c.lookup(name)
	return o != nil && o.Parent() == types.Universe
}

func (c *Compiler) assign(s *ast.AssignStmt) {
	cb := c.cb
	switch s.Tok {
	case token.DEFINE:
		cb.DefineVarStart(token.NoPos, identNamesExpr(s.Lhs)...)
		c.op("DefineVarStart")
		for _, r := range s.Rhs {
			c.exprN(r, len(s.Lhs), len(s.Rhs))
		}
		cb.EndInit(len(s.Rhs))
		c.op("EndInit")
	case token.ASSIGN:
		for _, l := range s.Lhs {
			c.lhs(l)
		}
		for _, r := range s.Rhs {
			c.exprN(r, len(s.Lhs), len(s.Rhs))
		}
		cb.AssignWith(len(s.Lhs), len(s.Rhs))
		c.op("AssignWith")
	default: // op-assign
		c.lhs(s.Lhs[0])
		c.expr(s.Rhs[0])
		cb.AssignOp(s.Tok)
		c.op("AssignOp")
	}
}

func identNamesExpr(es []ast.Expr) []string {
	r := make([]string, len(es))
	for i, e := range es {
		id, ok := e.(*ast.Ident)
		if !ok {
			feError("non-name on left side of :=")
		}
		r[i] = id.Name
	}
	return r
}

// lhs pushes an assignment target.
func (c *Compiler) lhs(e ast.Expr) {
	cb := c.cb
	switch e := e.(type) {
	case *ast.ParenExpr:
		c.lhs(e.X)
	case *ast.Ident:
		if e.Name == "_" {
			cb.VarRef(nil)
			c.op("VarRef_")
			return
		}
		o := c.lookup(e.Name)
		if o == nil {
			feError("undefined: %s", e.Name)
		}
		cb.VarRef(o)
		c.op("VarRef")
	case *ast.IndexExpr:
		c.expr(e.X)
		c.expr(e.Index)
		cb.IndexRef(1)
		c.op("IndexRef")
	case *ast.SelectorExpr:
		if pr, ok := c.pkgRef(e.X); ok {
			cb.VarRef(pr.Ref(e.Sel.Name))
			c.op("VarRef")
			return
		}
		c.expr(e.X)
		cb.MemberRef(e.Sel.Name)
		c.op("MemberRef")
	case *ast.StarExpr:
		c.expr(e.X)
		cb.ElemRef()
		c.op("ElemRef")
	default:
		feError("cannot assign to %T", e)
	}
}

// ---------------------------------------------------------------------------- expressions

// exprN compiles a rhs expression knowing how many lhs values are expected (comma-ok forms).
func (c *Compiler) exprN(e ast.Expr, nlhs, nrhs int) {
	if nlhs == 2 && nrhs == 1 {
		c.expr2(e, 2)
		return
	}
	c.expr(e)
}

func (c *Compiler) expr(e ast.Expr) {
	n0 := c.cb.InternalStack().Len()
	sc0, fn0 := c.cb.Scope(), c.cb.Func()
	c.expr2(e, 0)
	if n1 := c.cb.InternalStack().Len(); n1 != n0+1 {
		panic(&Imbalance{fmt.Sprintf("stack %d -> %d across expr %T", n0, n1, e)})
	}
	if c.cb.Scope() != sc0 || c.cb.Func() != fn0 {
		panic(&Imbalance{fmt.Sprintf("scope/func changed across expr %T", e)})
	}
	if c.Recs != nil {
		el := c.cb.Get(-1)
		c.Recs[e] = Rec{el.Type, el.CVal}
	}
}

func (c *Compiler) expr2(e ast.Expr, lhs int) {
	cb := c.cb
	twoValue := 0
	if lhs == 2 {
		twoValue = 2
	}
	switch e := e.(type) {
	case *ast.ParenExpr:
		c.expr2(e.X, lhs)
	case *ast.BasicLit:
		cb.Val(e, e)
		c.op("Val")
	case *ast.Ident:
		c.ident(e)
	case *ast.UnaryExpr:
		if e.Op == token.AND {
			if cl, ok := unparen(e.X).(*ast.CompositeLit); ok {
				c.compositeLit(cl, nil)
			} else {
				c.lhs(e.X)
			}
			cb.UnaryOp(token.AND, e)
			c.op("UnaryOp&")
			return
		}
		c.expr(e.X)
		if e.Op == token.ARROW && twoValue == 2 {
			cb.UnaryOpEx(token.ARROW, 2, e)
		} else {
			cb.UnaryOp(e.Op, e)
		}
		c.op("UnaryOp" + e.Op.String())
	case *ast.BinaryExpr:
		c.expr(e.X)
		c.expr(e.Y)
		cb.BinaryOp(e.Op, e)
		c.op("BinaryOp" + e.Op.String())
	case *ast.CallExpr:
		c.call(e, twoValue)
	case *ast.SelectorExpr:
		if pr, ok := c.pkgRef(e.X); ok {
			o := pr.TryRef(e.Sel.Name)
			if o == nil {
				feError("undefined: %s.%s", pr.Path(), e.Sel.Name)
			}
			cb.Val(o, e)
			c.op("ValPkg")
			return
		}
		if c.isType(e.X) { // method expression
			cb.Typ(c.toType(e.X))
		} else {
			c.expr(e.X)
		}
		cb.MemberVal(e.Sel.Name, twoValue, e)
		c.op("MemberVal")
	case *ast.IndexExpr:
		if c.isType(e.Index) && !c.isType(e.X) { // explicit instantiation f[T]
			c.expr(e.X)
			cb.Typ(c.toType(e.Index))
			cb.Index(1, 0, e)
			c.op("IndexInst")
			return
		}
		c.expr(e.X)
		c.expr(e.Index)
		cb.Index(1, twoValue, e)
		c.op("Index")
	case *ast.IndexListExpr:
		c.expr(e.X)
		for _, ix := range e.Indices {
			cb.Typ(c.toType(ix))
		}
		cb.Index(len(e.Indices), 0, e)
		c.op("IndexInst")
	case *ast.SliceExpr:
		c.expr(e.X)
		for _, ix := range []ast.Expr{e.Low, e.High} {
			if ix != nil {
				c.expr(ix)
			} else {
				cb.None()
			}
		}
		if e.Slice3 {
			c.expr(e.Max)
		}
		cb.Slice(e.Slice3, e)
		c.op("Slice")
	case *ast.StarExpr:
		c.expr(e.X)
		cb.Star(e)
		c.op("Star")
	case *ast.TypeAssertExpr:
		c.expr(e.X)
		cb.TypeAssert(c.toType(e.Type), twoValue, e)
		c.op("TypeAssert")
	case *ast.CompositeLit:
		c.compositeLit(e, nil)
	case *ast.FuncLit:
		sig := c.toSig(nil, e.Type, nil)
		fn := cb.NewClosureWith(sig)
		c.op("NewClosure")
		c.cb = fn.BodyStart(c.Pkg)
		c.op("BodyStart")
		c.withLabels(e.Body, func() { c.stmts(e.Body.List) })
		c.cb.End(e)
		c.op("End")
	default:
		if c.isType(e) {
			cb.Typ(c.toType(e))
			c.op("Typ")
			return
		}
		unsupported("expr %T", e)
	}
}

func unparen(e ast.Expr) ast.Expr {
	for {
		p, ok := e.(*ast.ParenExpr)
		if !ok {
			return e
		}
		e = p.X
	}
}

func (c *Compiler) ident(e *ast.Ident) {
	cb := c.cb
	if tp := c.lookupTParam(e.Name); tp != nil {
		cb.Typ(tp, e)
		c.op("Typ")
		return
	}
	o := c.lookup(e.Name)
	if o == nil {
		feError("undefined: %s", e.Name)
	}
	switch o := o.(type) {
	case *types.Nil:
		cb.Val(nil, e)
	case *types.TypeName:
		cb.Typ(o.Type(), e)
	default:
		cb.Val(o, e)
	}
	c.op("ValIdent")
}

func (c *Compiler) call(e *ast.CallExpr, twoValue int) {
	cb := c.cb
	var flags gogen.InstrFlags
	if e.Ellipsis != 0 {
		flags = gogen.InstrFlagEllipsis
	}
	fun := unparen(e.Fun)
	if c.isType(fun) {
		cb.Typ(c.toType(fun), e.Fun)
		c.op("Typ")
	} else {
		c.expr(fun)
	}
	for i, a := range e.Args {
		if c.isType(a) && i == 0 { // new(T), make(T, ...)
			cb.Typ(c.toType(a), a)
			c.op("Typ")
			continue
		}
		c.expr(a)
	}
	cb.CallWith(len(e.Args), twoValue, flags, e)
	c.op("Call")
}

func (c *Compiler) compositeLit(e *ast.CompositeLit, elided types.Type) {
	cb := c.cb
	var typ types.Type
	if e.Type != nil {
		typ = c.toType(e.Type)
	} else {
		typ = elided
	}
	if typ == nil {
		feError("missing type in composite literal")
	}
	under := typ.Underlying()
	elemOf := func(t types.Type, v ast.Expr) {
		if cl, ok := v.(*ast.CompositeLit); ok && cl.Type == nil {
			if p, ok := t.Underlying().(*types.Pointer); ok {
				c.compositeLit(cl, p.Elem())
				cb.UnaryOp(token.AND)
				c.op("UnaryOp&")
			} else {
				c.compositeLit(cl, t)
			}
			return
		}
		c.expr(v)
	}
	switch u := under.(type) {
	case *types.Struct:
		keyed := len(e.Elts) > 0
		for _, el := range e.Elts {
			if _, ok := el.(*ast.KeyValueExpr); !ok {
				keyed = false
			}
		}
		if keyed {
			for _, el := range e.Elts {
				kv := el.(*ast.KeyValueExpr)
				name := kv.Key.(*ast.Ident).Name
				idx := -1
				for i := 0; i < u.NumFields(); i++ {
					if u.Field(i).Name() == name {
						idx = i
					}
				}
				if idx < 0 {
					feError("unknown field %s", name)
				}
				cb.Val(idx)
				elemOf(u.Field(idx).Type(), kv.Value)
			}
			cb.StructLit(typ, 2*len(e.Elts), true, e)
		} else {
			for i, el := range e.Elts {
				if i < u.NumFields() {
					elemOf(u.Field(i).Type(), el)
				} else {
					c.expr(el)
				}
			}
			cb.StructLit(typ, len(e.Elts), false, e)
		}
		c.op("StructLit")
	case *types.Map:
		for _, el := range e.Elts {
			kv, ok := el.(*ast.KeyValueExpr)
			if !ok {
				feError("missing key in map literal")
			}
			elemOf(u.Key(), kv.Key)
			elemOf(u.Elem(), kv.Value)
		}
		cb.MapLit(typ, 2*len(e.Elts), e)
		c.op("MapLit")
	case *types.Slice, *types.Array:
		var elem types.Type
		if s, ok := u.(*types.Slice); ok {
			elem = s.Elem()
		} else {
			elem = u.(*types.Array).Elem()
		}
		keyed := false
		for _, el := range e.Elts {
			if _, ok := el.(*ast.KeyValueExpr); ok {
				keyed = true
			}
		}
		n := len(e.Elts)
		for _, el := range e.Elts {
			if kv, ok := el.(*ast.KeyValueExpr); ok {
				c.expr(kv.Key)
				elemOf(elem, kv.Value)
			} else {
				if keyed {
					cb.None()
				}
				elemOf(elem, el)
			}
		}
		if keyed {
			n *= 2
		}
		if _, ok := u.(*types.Slice); ok {
			cb.SliceLit(typ, n, keyed)
			c.op("SliceLit")
		} else {
			cb.ArrayLit(typ, n, keyed)
			c.op("ArrayLit")
		}
	default:
		feError("invalid composite literal type %v", typ)
	}
}
