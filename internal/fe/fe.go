// Package fe is the front end (DESIGN.md E1): Go source (subset) -> gogen CodeBuilder operations, syntax-directed,
// using only gogen's own scopes for name resolution (no information from go/types).
package fe

import (
	"fmt"
	"go/ast"
	"go/constant"
	"go/token"
	"go/types"
	"strconv"

	"github.com/goplus/gogen"
)

type Unsupported struct{ What string }

func (u *Unsupported) Error() string { return "unsupported: " + u.What }

func unsupported(format string, args ...any) {
	panic(&Unsupported{fmt.Sprintf(format, args...)})
}

type FEError struct{ Msg string }

func (e *FEError) Error() string { return "front-end: " + e.Msg }

func feError(format string, args ...any) {
	panic(&FEError{fmt.Sprintf(format, args...)})
}

type Rec struct {
	Type    types.Type
	CVal    constant.Value
	Ref     bool     // recorded on the assignment-target side
	CommaOk bool     // compiled in two-value (comma-ok) mode: Type is the tuple (T, bool)
	Val     ast.Node // the syntax the builder holds for the operand (what it will emit)
	Fn      string   // key of the function being compiled ("" at package level)
}

// OpEvent is one builder operation as seen by the monitor (internal/mon semantics of DESIGN.md E1).
type OpEvent struct {
	Name          string
	Before, After int // operand stack length
	Delta         int // documented arity (NoArity if context dependent)
}

const NoArity = -9999

// PkgUse logs one package-qualified reference: file it was made from and the import path intended.
type PkgUse struct {
	File string
	Path string
	Name string
}

type Compiler struct {
	Recs     map[ast.Expr]Rec
	Decls    map[string]types.Type     // "func/name" or "pkg/name" -> type the builder exposes for the declared object
	DeclVals map[string]constant.Value // same keys, declared constants only: the value the builder's object carries
	Pkg      *gogen.Package
	Mon      func(ev OpEvent)
	PkgUses  []PkgUse
	Ops      int
	OpKinds  map[string]int
	Recover  bool     // statement-level error recovery (C16): ResetInit/ResetStmt and continue
	Reported []string // errors swallowed by recovery
	AfterOp  func()   // called after every operation (C18 yields here)

	cb      *gogen.CodeBuilder
	imports map[string]string // local name -> path (current file)
	curFile string
	tparams []map[string]*types.TypeParam
	labels  map[string]*gogen.Label
	inInit  int
	funcKey string
}

type funcBody struct {
	fn   *gogen.Func
	decl *ast.FuncDecl
	tps  map[string]*types.TypeParam
	file string
	imps map[string]string
}

// do runs one builder operation under the monitor.
func (c *Compiler) do(name string, delta int, f func()) {
	n0 := c.cb.InternalStack().Len()
	f()
	c.Ops++
	if c.OpKinds != nil {
		c.OpKinds[name]++
	}
	n1 := c.cb.InternalStack().Len()
	if c.Mon != nil {
		c.Mon(OpEvent{name, n0, n1, delta})
	}
	if delta != NoArity && n1-n0 != delta {
		panic(&Imbalance{fmt.Sprintf("operation %s changed the operand stack by %d (documented arity %d)", name, n1-n0, delta)})
	}
	if c.AfterOp != nil {
		c.AfterOp()
	}
}

// File is one source file of the package being compiled.
type File struct {
	Name string // file name handed to SetCurFile ("" = default file)
	AST  *ast.File
}

// CompileFile drives pkg with the declarations of one file.
func (c *Compiler) CompileFile(f *ast.File) { c.CompileFiles([]File{{"", f}}) }

func (c *Compiler) setFile(name string, imps map[string]string) {
	if name != c.curFile {
		if _, err := c.Pkg.SetCurFile(name, true); err != nil {
			feError("SetCurFile: %v", err)
		}
		c.curFile = name
	}
	c.imports = imps
}

// CompileFiles drives pkg the way a compiler front end does: imports, constants, type names and bodies,
// function signatures, variables, then function bodies.
func (c *Compiler) CompileFiles(files []File) {
	c.cb = c.Pkg.CB()
	if c.Decls == nil {
		c.Decls = map[string]types.Type{}
	}
	if c.DeclVals == nil {
		c.DeclVals = map[string]constant.Value{}
	}
	imps := make([]map[string]string, len(files))
	for i, f := range files {
		if f.Name != "" || len(files) > 1 {
			if _, err := c.Pkg.SetCurFile(f.Name, true); err != nil {
				feError("SetCurFile: %v", err)
			}
			c.curFile = f.Name
		}
		m := map[string]string{}
		for _, im := range f.AST.Imports {
			path, _ := strconv.Unquote(im.Path.Value)
			name := ""
			if im.Name != nil {
				name = im.Name.Name
			}
			if name == "_" {
				c.Pkg.ForceImport(path)
				continue
			}
			if name == "." {
				unsupported("dot import")
			}
			if name == "" {
				pr := c.Pkg.Import(path)
				name = pr.Types.Name()
			}
			m[name] = path
		}
		imps[i] = m
	}
	each := func(tok token.Token, fn func(d *ast.GenDecl)) {
		for i, f := range files {
			for _, d := range f.AST.Decls {
				if g, ok := d.(*ast.GenDecl); ok && g.Tok == tok {
					c.setFile(f.Name, imps[i])
					fn(g)
				}
			}
		}
	}
	// constants that do not mention a package-level variable come first (types and signatures may use them);
	// the others are compiled with the variables, in source order
	pkgVars := map[string]bool{}
	for _, f := range files {
		for _, d := range f.AST.Decls {
			if g, ok := d.(*ast.GenDecl); ok && g.Tok == token.VAR {
				for _, sp := range g.Specs {
					for _, n := range sp.(*ast.ValueSpec).Names {
						pkgVars[n.Name] = true
					}
				}
			}
		}
	}
	late := map[*ast.GenDecl]bool{}
	each(token.CONST, func(g *ast.GenDecl) {
		ast.Inspect(g, func(n ast.Node) bool {
			if id, ok := n.(*ast.Ident); ok && pkgVars[id.Name] {
				late[g] = true
			}
			return true
		})
	})
	// Type names are declared first (all files); then type bodies and constant declarations are compiled in
	// dependency order (a typed constant needs its type initialised, an array type needs its length constant),
	// source order otherwise.
	var allTypes []*typePend
	each(token.TYPE, func(g *ast.GenDecl) { allTypes = append(allTypes, c.typeDeclStart(g, true, imps)...) })
	type item struct {
		names []string // names this item defines
		refs  map[string]bool
		isTyp bool
		run   func()
		done  bool
	}
	var items []*item
	refsOf := func(n ast.Node) map[string]bool {
		m := map[string]bool{}
		ast.Inspect(n, func(x ast.Node) bool {
			if id, ok := x.(*ast.Ident); ok {
				m[id.Name] = true
			}
			return true
		})
		return m
	}
	for _, p := range allTypes {
		p := p
		items = append(items, &item{names: []string{p.spec.Name.Name}, refs: refsOf(p.spec.Type), isTyp: true, run: func() {
			c.setFile(p.file, p.imps)
			c.typeDeclFinish(p)
		}})
	}
	for i, f := range files {
		for _, d := range f.AST.Decls {
			if g, ok := d.(*ast.GenDecl); ok && g.Tok == token.CONST && !late[g] {
				g, i, f := g, i, f
				var names []string
				for _, sp := range g.Specs {
					for _, n := range sp.(*ast.ValueSpec).Names {
						names = append(names, n.Name)
					}
				}
				items = append(items, &item{names: names, refs: refsOf(g), run: func() {
					c.setFile(f.Name, imps[i])
					c.constDecl(g, true)
				}})
			}
		}
	}
	definedBy := map[string]*item{}
	for _, it := range items {
		for _, n := range it.names {
			definedBy[n] = it
		}
	}
	for left := len(items); left > 0; left-- {
		var pick *item
		for _, it := range items {
			if it.done {
				continue
			}
			ready := true
			for r := range it.refs {
				if d := definedBy[r]; d != nil && d != it && !d.done && !(it.isTyp && d.isTyp) {
					ready = false
					break
				}
			}
			if ready {
				pick = it
				break
			}
		}
		if pick == nil {
			for _, it := range items {
				if !it.done {
					pick = it
					break
				}
			}
		}
		pick.run()
		pick.done = true
	}
	for _, p := range allTypes {
		if p.last {
			p.defs.Complete()
		}
	}
	var bodies []funcBody
	for i, f := range files {
		for _, d := range f.AST.Decls {
			if fd, ok := d.(*ast.FuncDecl); ok {
				c.setFile(f.Name, imps[i])
				b := c.funcDecl(fd)
				b.file, b.imps = f.Name, imps[i]
				bodies = append(bodies, b)
			}
		}
	}
	for i, f := range files {
		for _, d := range f.AST.Decls {
			if g, ok := d.(*ast.GenDecl); ok && (g.Tok == token.VAR || late[g]) {
				c.setFile(f.Name, imps[i])
				if g.Tok == token.VAR {
					c.varDecl(g)
				} else {
					c.constDecl(g, true)
				}
			}
		}
	}
	for _, b := range bodies {
		if b.decl.Body == nil {
			continue
		}
		c.setFile(b.file, b.imps)
		c.funcBody(b)
	}
}

// ---------------------------------------------------------------------------- types

func (c *Compiler) lookupTParam(name string) *types.TypeParam {
	for i := len(c.tparams) - 1; i >= 0; i-- {
		if tp, ok := c.tparams[i][name]; ok {
			return tp
		}
	}
	return nil
}

func (c *Compiler) lookup(name string) types.Object {
	_, o := c.cb.Scope().LookupParent(name, token.NoPos)
	return o
}

func (c *Compiler) pkgRef(x ast.Expr) (gogen.PkgRef, bool) {
	if id, ok := x.(*ast.Ident); ok {
		if path, ok := c.imports[id.Name]; ok {
			if c.lookupTParam(id.Name) == nil {
				if o := c.lookup(id.Name); o == nil || o.Parent() == types.Universe {
					return c.Pkg.Import(path), true
				}
			}
		}
	}
	return gogen.PkgRef{}, false
}

func (c *Compiler) isType(e ast.Expr) bool {
	switch e := e.(type) {
	case *ast.ArrayType, *ast.MapType, *ast.ChanType, *ast.FuncType, *ast.StructType, *ast.InterfaceType:
		return true
	case *ast.ParenExpr:
		return c.isType(e.X)
	case *ast.StarExpr:
		return c.isType(e.X)
	case *ast.Ident:
		if c.lookupTParam(e.Name) != nil {
			return true
		}
		_, ok := c.lookup(e.Name).(*types.TypeName)
		return ok
	case *ast.SelectorExpr:
		if pr, ok := c.pkgRef(e.X); ok {
			_, ok := pr.TryRef(e.Sel.Name).(*types.TypeName)
			return ok
		}
	case *ast.IndexExpr:
		return c.isType(e.X)
	case *ast.IndexListExpr:
		return c.isType(e.X)
	}
	return false
}

func (c *Compiler) toType(e ast.Expr) types.Type {
	switch e := e.(type) {
	case *ast.Ident:
		if tp := c.lookupTParam(e.Name); tp != nil {
			return tp
		}
		o := c.lookup(e.Name)
		if o == nil {
			feError("undefined: %s", e.Name)
		}
		tn, ok := o.(*types.TypeName)
		if !ok {
			feError("%s is not a type", e.Name)
		}
		return tn.Type()
	case *ast.ParenExpr:
		return c.toType(e.X)
	case *ast.StarExpr:
		return types.NewPointer(c.toType(e.X))
	case *ast.ArrayType:
		if e.Len == nil {
			return types.NewSlice(c.toType(e.Elt))
		}
		if _, ok := e.Len.(*ast.Ellipsis); ok {
			return types.NewArray(c.toType(e.Elt), -1)
		}
		// constant length: evaluate through the builder
		c.expr(e.Len)
		el := c.cb.InternalStack().Pop()
		if el.CVal == nil {
			feError("array length is not constant")
		}
		n, err := strconv.ParseInt(el.CVal.ExactString(), 10, 64)
		if err != nil {
			feError("bad array length %v", el.CVal)
		}
		return types.NewArray(c.toType(e.Elt), n)
	case *ast.MapType:
		return types.NewMap(c.toType(e.Key), c.toType(e.Value))
	case *ast.ChanType:
		dir := types.SendRecv
		switch e.Dir {
		case ast.SEND:
			dir = types.SendOnly
		case ast.RECV:
			dir = types.RecvOnly
		}
		return types.NewChan(dir, c.toType(e.Value))
	case *ast.FuncType:
		return c.toSig(nil, e, nil)
	case *ast.StructType:
		var flds []*types.Var
		var tags []string
		for _, f := range e.Fields.List {
			t := c.toType(f.Type)
			tag := ""
			if f.Tag != nil {
				tag, _ = strconv.Unquote(f.Tag.Value)
			}
			if len(f.Names) == 0 {
				flds = append(flds, types.NewField(token.NoPos, c.Pkg.Types, embedName(f.Type), t, true))
				tags = append(tags, tag)
			}
			for _, n := range f.Names {
				flds = append(flds, types.NewField(token.NoPos, c.Pkg.Types, n.Name, t, false))
				tags = append(tags, tag)
			}
		}
		return types.NewStruct(flds, tags)
	case *ast.InterfaceType:
		var methods []*types.Func
		var embeds []types.Type
		for _, f := range e.Methods.List {
			if len(f.Names) == 0 {
				embeds = append(embeds, c.toConstraintElem(f.Type))
				continue
			}
			sig := c.toSig(nil, f.Type.(*ast.FuncType), nil)
			for _, n := range f.Names {
				methods = append(methods, types.NewFunc(token.NoPos, c.Pkg.Types, n.Name, sig))
			}
		}
		if len(methods) == 0 && len(embeds) == 0 {
			return gogen.TyEmptyInterface
		}
		return types.NewInterfaceType(methods, embeds).Complete()
	case *ast.SelectorExpr:
		if pr, ok := c.pkgRef(e.X); ok {
			o := pr.TryRef(e.Sel.Name)
			if o == nil {
				feError("undefined: %s.%s", pr.Path(), e.Sel.Name)
			}
			return o.Type()
		}
		feError("bad qualified type")
	case *ast.Ellipsis:
		return types.NewSlice(c.toType(e.Elt))
	case *ast.IndexExpr:
		return c.Pkg.Instantiate(c.toType(e.X), []types.Type{c.toType(e.Index)})
	case *ast.IndexListExpr:
		var targs []types.Type
		for _, ix := range e.Indices {
			targs = append(targs, c.toType(ix))
		}
		return c.Pkg.Instantiate(c.toType(e.X), targs)
	}
	unsupported("type %T", e)
	return nil
}

func (c *Compiler) toConstraintElem(e ast.Expr) types.Type {
	switch e := e.(type) {
	case *ast.BinaryExpr:
		if e.Op == token.OR {
			var terms []*types.Term
			var walk func(x ast.Expr)
			walk = func(x ast.Expr) {
				if b, ok := x.(*ast.BinaryExpr); ok && b.Op == token.OR {
					walk(b.X)
					walk(b.Y)
					return
				}
				terms = append(terms, c.toTerm(x))
			}
			walk(e)
			return types.NewUnion(terms)
		}
	case *ast.UnaryExpr:
		if e.Op == token.TILDE {
			return types.NewUnion([]*types.Term{c.toTerm(e)})
		}
	}
	return c.toType(e)
}

func (c *Compiler) toTerm(e ast.Expr) *types.Term {
	if u, ok := e.(*ast.UnaryExpr); ok && u.Op == token.TILDE {
		return types.NewTerm(true, c.toType(u.X))
	}
	return types.NewTerm(false, c.toType(e))
}

func embedName(e ast.Expr) string {
	switch e := e.(type) {
	case *ast.Ident:
		return e.Name
	case *ast.StarExpr:
		return embedName(e.X)
	case *ast.SelectorExpr:
		return e.Sel.Name
	case *ast.IndexExpr:
		return embedName(e.X)
	case *ast.IndexListExpr:
		return embedName(e.X)
	case *ast.ParenExpr:
		return embedName(e.X)
	}
	return ""
}

func (c *Compiler) toTuple(fl *ast.FieldList) (*types.Tuple, bool) {
	if fl == nil {
		return nil, false
	}
	var vars []*types.Var
	variadic := false
	for _, f := range fl.List {
		if _, ok := f.Type.(*ast.Ellipsis); ok {
			variadic = true
		}
		t := c.toType(f.Type)
		if len(f.Names) == 0 {
			vars = append(vars, c.Pkg.NewParam(token.NoPos, "", t, false))
		}
		for _, n := range f.Names {
			vars = append(vars, c.Pkg.NewParam(token.NoPos, n.Name, t, false))
		}
	}
	if len(vars) == 0 {
		return nil, false
	}
	return types.NewTuple(vars...), variadic
}

func (c *Compiler) toTParams(fl *ast.FieldList) ([]*types.TypeParam, map[string]*types.TypeParam) {
	if fl == nil {
		return nil, nil
	}
	m := map[string]*types.TypeParam{}
	var list []*types.TypeParam
	type pend struct {
		tp *types.TypeParam
		e  ast.Expr
	}
	var pends []pend
	for _, f := range fl.List {
		for _, n := range f.Names {
			tp := types.NewTypeParam(types.NewTypeName(token.NoPos, c.Pkg.Types, n.Name, nil), types.Universe.Lookup("any").Type())
			m[n.Name] = tp
			list = append(list, tp)
			pends = append(pends, pend{tp, f.Type})
		}
	}
	c.tparams = append(c.tparams, m)
	for _, p := range pends {
		ct := c.toConstraintElem(p.e)
		if _, ok := ct.Underlying().(*types.Interface); !ok {
			it := types.NewInterfaceType(nil, []types.Type{ct})
			it.MarkImplicit()
			ct = it
		}
		p.tp.SetConstraint(ct)
	}
	c.tparams = c.tparams[:len(c.tparams)-1]
	return list, m
}

func (c *Compiler) toSig(recv *types.Var, ft *ast.FuncType, recvTP []*types.TypeParam) *types.Signature {
	tps, m := c.toTParams(ft.TypeParams)
	if m != nil {
		c.tparams = append(c.tparams, m)
		defer func() { c.tparams = c.tparams[:len(c.tparams)-1] }()
	}
	params, variadic := c.toTuple(ft.Params)
	results, _ := c.toTuple(ft.Results)
	return types.NewSignatureType(recv, recvTP, tps, params, results, variadic)
}

// ---------------------------------------------------------------------------- decls

type typePend struct {
	decl *gogen.TypeDecl
	spec *ast.TypeSpec
	defs *gogen.TypeDefs
	last bool
	file string
	imps map[string]string
}

func (c *Compiler) typeDeclStart(d *ast.GenDecl, pkgLevel bool, _ any) []*typePend {
	var defs *gogen.TypeDefs
	if pkgLevel {
		defs = c.Pkg.NewTypeDefs()
	} else {
		defs = c.cb.NewTypeDefs()
	}
	c.do("NewTypeDefs", 0, func() {})
	var pends []*typePend
	for _, sp := range d.Specs {
		ts := sp.(*ast.TypeSpec)
		pends = append(pends, &typePend{spec: ts, defs: defs, file: c.curFile, imps: c.imports})
	}
	// non-alias names are declared first so that later specs (and alias targets) may refer to them
	for _, p := range pends {
		if p.spec.Assign == 0 {
			p := p
			c.do("NewType", 0, func() { p.decl = p.defs.NewType(p.spec.Name.Name) })
		}
	}
	if len(pends) > 0 {
		pends[len(pends)-1].last = true
	}
	return pends
}

func (c *Compiler) typeDeclFinish(p *typePend) {
	if p.spec.Assign != 0 {
		if p.spec.TypeParams != nil {
			unsupported("generic alias")
		}
		t := c.toType(p.spec.Type)
		c.do("AliasType", 0, func() { p.defs.AliasType(p.spec.Name.Name, t) })
		return
	}
	tps, m := c.toTParams(p.spec.TypeParams)
	if m != nil {
		c.tparams = append(c.tparams, m)
	}
	t := c.toType(p.spec.Type)
	c.do("InitType", 0, func() { p.decl.InitType(c.Pkg, t, tps...) })
	if m != nil {
		c.tparams = c.tparams[:len(c.tparams)-1]
	}
}

func (c *Compiler) typeDecl(d *ast.GenDecl, pkgLevel bool) {
	pends := c.typeDeclStart(d, pkgLevel, nil)
	for _, p := range pends {
		c.typeDeclFinish(p)
	}
	if len(pends) > 0 {
		pends[0].defs.Complete()
	}
}

func (c *Compiler) declKey(name string) string { return c.funcKey + "/" + name }

func (c *Compiler) recordDecls(names []string) {
	for _, n := range names {
		if n == "_" {
			continue
		}
		if o := c.cb.Scope().Lookup(n); o != nil {
			c.Decls[c.declKey(n)] = o.Type()
			if k, ok := o.(*types.Const); ok && c.DeclVals != nil {
				c.DeclVals[c.declKey(n)] = k.Val()
			}
		}
	}
}

func (c *Compiler) varDecl(d *ast.GenDecl) {
	for _, sp := range d.Specs {
		vs := sp.(*ast.ValueSpec)
		var typ types.Type
		if vs.Type != nil {
			typ = c.toType(vs.Type)
		}
		names := identNames(vs.Names)
		if len(vs.Values) == 0 {
			c.do("NewVar", 0, func() { c.cb.NewVar(typ, names...) })
			c.recordDecls(names)
			continue
		}
		c.do("NewVarStart", 0, func() { c.cb.NewVarStart(typ, names...) })
		c.inInit++
		for _, v := range vs.Values {
			c.exprN(v, len(names), len(vs.Values))
		}
		c.inInit--
		c.do("EndInit", -len(vs.Values), func() { c.cb.EndInit(len(vs.Values)) })
		c.recordDecls(names)
	}
}

func (c *Compiler) constDecl(d *ast.GenDecl, pkgLevel bool) {
	var defs *gogen.ConstDefs
	c.do("NewConstDefs", 0, func() { defs = c.Pkg.NewConstDefs(c.cb.Scope()) })
	var last *ast.ValueSpec
	for i, sp := range d.Specs {
		vs := sp.(*ast.ValueSpec)
		names := identNames(vs.Names)
		if len(vs.Values) == 0 && last != nil {
			c.do("ConstNext", 0, func() { defs.Next(i, token.NoPos, names...) })
			c.recordDecls(names)
			continue
		}
		last = vs
		var typ types.Type
		if vs.Type != nil {
			typ = c.toType(vs.Type)
		}
		vals := vs.Values
		c.do("ConstNew", 0, func() {
			defs.New(func(cb *gogen.CodeBuilder) int {
				c.inInit++
				for _, v := range vals {
					c.expr(v)
				}
				c.inInit--
				return len(vals)
			}, i, token.NoPos, typ, names...)
		})
		c.recordDecls(names)
	}
}

func identNames(ids []*ast.Ident) []string {
	r := make([]string, len(ids))
	for i, id := range ids {
		r[i] = id.Name
	}
	return r
}

func (c *Compiler) funcDecl(d *ast.FuncDecl) funcBody {
	var recv *types.Var
	if d.Recv != nil && len(d.Recv.List) == 1 {
		f := d.Recv.List[0]
		rt := f.Type
		star := false
		if st, ok := rt.(*ast.StarExpr); ok {
			rt, star = st.X, true
		}
		switch unparen(rt).(type) {
		case *ast.IndexExpr, *ast.IndexListExpr:
			unsupported("method on generic receiver")
		}
		base := c.toType(rt)
		if star {
			base = types.NewPointer(base)
		}
		name := ""
		if len(f.Names) == 1 {
			name = f.Names[0].Name
		}
		recv = c.Pkg.NewParam(token.NoPos, name, base, false)
	}
	sig := c.toSig(recv, d.Type, nil)
	if d.Body == nil {
		var fn *gogen.Func
		c.do("NewFuncDecl", 0, func() { fn = c.Pkg.NewFuncDecl(token.NoPos, d.Name.Name, sig) })
		return funcBody{fn: fn, decl: d}
	}
	var fn *gogen.Func
	var err error
	c.do("NewFuncWith", 0, func() { fn, err = c.Pkg.NewFuncWith(token.NoPos, d.Name.Name, sig, nil) })
	if err != nil {
		panic(err)
	}
	if recv == nil && d.Name.Name != "_" && d.Name.Name != "init" {
		c.Decls["/"+d.Name.Name] = fn.Type()
	}
	_, m := c.toTParamsLookup(sig, d.Type.TypeParams)
	return funcBody{fn: fn, decl: d, tps: m}
}

// toTParamsLookup maps declared type-parameter names to the TypeParams of sig.
func (c *Compiler) toTParamsLookup(sig *types.Signature, fl *ast.FieldList) ([]*types.TypeParam, map[string]*types.TypeParam) {
	if fl == nil {
		return nil, nil
	}
	m := map[string]*types.TypeParam{}
	var list []*types.TypeParam
	i := 0
	for _, f := range fl.List {
		for _, n := range f.Names {
			tp := sig.TypeParams().At(i)
			m[n.Name] = tp
			list = append(list, tp)
			i++
		}
	}
	return list, m
}

func funcKeyOf(d *ast.FuncDecl) string {
	if d.Recv != nil && len(d.Recv.List) == 1 {
		return "(" + types.ExprString(d.Recv.List[0].Type) + ")." + d.Name.Name
	}
	return d.Name.Name
}

func (c *Compiler) recordParams(sig *types.Signature) {
	rec := func(t *types.Tuple) {
		for i := 0; i < t.Len(); i++ {
			if n := t.At(i).Name(); n != "" && n != "_" {
				if o := c.cb.Scope().Lookup(n); o != nil {
					c.Decls[c.declKey(n)] = o.Type()
				}
			}
		}
	}
	rec(sig.Params())
	rec(sig.Results())
	if r := sig.Recv(); r != nil && r.Name() != "" && r.Name() != "_" {
		if o := c.cb.Scope().Lookup(r.Name()); o != nil {
			c.Decls[c.declKey(r.Name())] = o.Type()
		}
	}
}

func (c *Compiler) funcBody(b funcBody) {
	if b.tps != nil {
		c.tparams = append(c.tparams, b.tps)
		defer func() { c.tparams = c.tparams[:len(c.tparams)-1] }()
	}
	oldKey := c.funcKey
	c.funcKey = funcKeyOf(b.decl)
	defer func() { c.funcKey = oldKey }()
	sc0, fn0 := c.cb.Scope(), c.cb.Func()
	c.withLabelCheck(b.decl.Body, "function "+c.funcKey, func() {
		c.do("BodyStart", 0, func() { c.cb = b.fn.BodyStart(c.Pkg) })
		c.recordParams(b.fn.Type().(*types.Signature))
		c.withLabels(b.decl.Body, func() {
			c.stmts(b.decl.Body.List)
		})
		c.do("End", 0, func() { c.cb.End(b.decl) })
	})
	if c.cb.Scope() != sc0 || c.cb.Func() != fn0 {
		panic(&Imbalance{"scope/func not restored after function body " + c.funcKey})
	}
}

// labelSnapshot records which of the given names resolve to which label right now.
func (c *Compiler) labelSnapshot(names map[string]bool) map[string]*gogen.Label {
	m := map[string]*gogen.Label{}
	for n := range names {
		if l, ok := c.cb.LookupLabel(n); ok {
			m[n] = l
		}
	}
	return m
}

func labelNames(body *ast.BlockStmt, into map[string]bool) {
	ast.Inspect(body, func(n ast.Node) bool {
		if l, ok := n.(*ast.LabeledStmt); ok {
			into[l.Label.Name] = true
		}
		return true
	})
}

// withLabelCheck runs f (which opens and closes a function body) and verifies that the label context visible
// afterwards is the one that was visible before (C16).
func (c *Compiler) withLabelCheck(body *ast.BlockStmt, what string, f func()) {
	names := map[string]bool{}
	labelNames(body, names)
	for n := range c.labels {
		names[n] = true
	}
	before := c.labelSnapshot(names)
	f()
	after := c.labelSnapshot(names)
	for n := range names {
		if before[n] != after[n] {
			panic(&Imbalance{fmt.Sprintf("label context not restored after %s: label %s resolved to %p before and %p after", what, n, before[n], after[n])})
		}
	}
}

func (c *Compiler) withLabels(body *ast.BlockStmt, f func()) {
	old := c.labels
	c.labels = map[string]*gogen.Label{}
	ast.Inspect(body, func(n ast.Node) bool {
		switch n := n.(type) {
		case *ast.FuncLit:
			return false
		case *ast.LabeledStmt:
			c.do("NewLabel", 0, func() {
				if l := c.cb.NewLabel(n.Label.Pos(), n.Label.End(), n.Label.Name); l != nil {
					if _, dup := c.labels[n.Label.Name]; !dup {
						c.labels[n.Label.Name] = l
					}
				}
			})
		}
		return true
	})
	f()
	c.labels = old
}

// ---------------------------------------------------------------------------- statements

type Imbalance struct{ Msg string }

func (e *Imbalance) Error() string { return "imbalance: " + e.Msg }

type snapshot struct {
	n  int
	sc *types.Scope
	fn *gogen.Func
	vb bool
}

func (c *Compiler) snap() snapshot {
	return snapshot{c.cb.InternalStack().Len(), c.cb.Scope(), c.cb.Func(), c.cb.InVBlock()}
}

func (c *Compiler) checkRestored(s0 snapshot, what string) {
	s1 := c.snap()
	if s1.n != s0.n {
		panic(&Imbalance{fmt.Sprintf("operand stack %d -> %d across %s", s0.n, s1.n, what)})
	}
	if s1.sc != s0.sc {
		panic(&Imbalance{"scope not restored across " + what})
	}
	if s1.fn != s0.fn {
		panic(&Imbalance{"current function not restored across " + what})
	}
	if s1.vb != s0.vb {
		panic(&Imbalance{"vblock flag not restored across " + what})
	}
}

func (c *Compiler) stmts(list []ast.Stmt) {
	for _, s := range list {
		s0 := c.snap()
		if c.Recover {
			c.stmtRecover(s)
			if c.cb.InternalStack().Len() != s0.n {
				panic(&Imbalance{fmt.Sprintf("operand stack %d -> %d after recovery from a reported error in %T", s0.n, c.cb.InternalStack().Len(), s)})
			}
			continue
		}
		c.stmt(s)
		c.checkRestored(s0, fmt.Sprintf("%T", s))
	}
}

// stmtRecover compiles one statement; if the builder reports an error inside it the front end recovers the way a
// compiler does (ResetInit inside an initialiser, ResetStmt otherwise) and carries on with the next statement.
func (c *Compiler) stmtRecover(s ast.Stmt) {
	switch s.(type) {
	case *ast.ExprStmt, *ast.AssignStmt, *ast.IncDecStmt, *ast.SendStmt, *ast.ReturnStmt, *ast.GoStmt, *ast.DeferStmt, *ast.DeclStmt:
	default:
		c.stmt(s) // compound statements recover inside their own statement lists
		return
	}
	init0 := c.inInit
	sc0, fn0 := c.cb.Scope(), c.cb.Func()
	defer func() {
		if e := recover(); e != nil {
			switch e.(type) {
			case *Unsupported, *FEError, *Imbalance, runtimeError:
				panic(e)
			}
			if c.cb.Scope() != sc0 || c.cb.Func() != fn0 {
				// the error was raised inside a construct nested in this statement (e.g. the header of an if inside a
				// closure): there is no statement-level recovery protocol for that, the case decides nothing
				panic(&Unsupported{"reported error inside a nested construct header: " + fmt.Sprint(e)})
			}
			c.Reported = append(c.Reported, fmt.Sprint(e))
			// the protocol of a real front end: the initialiser's own handler calls ResetInit (which restores the value
			// declaration and the code block, not the operand stack) and re-raises; the statement-level handler then calls
			// ResetStmt, which drops the operands of the abandoned statement
			if c.inInit > init0 {
				c.inInit = init0
				c.cb.ResetInit()
			}
			c.cb.ResetStmt()
		}
	}()
	c.stmt(s)
}

type runtimeError interface {
	error
	RuntimeError()
}

func (c *Compiler) label(id *ast.Ident) *gogen.Label {
	if id == nil {
		return nil
	}
	l, ok := c.labels[id.Name]
	if !ok {
		feError("label %s not defined", id.Name)
	}
	return l
}

func (c *Compiler) stmt(s ast.Stmt) {
	cb := c.cb
	switch s := s.(type) {
	case *ast.EmptyStmt:
	case *ast.ExprStmt:
		c.expr(s.X)
		c.do("EndStmt", -1, func() { cb.EndStmt() })
	case *ast.DeclStmt:
		d := s.Decl.(*ast.GenDecl)
		switch d.Tok {
		case token.VAR:
			c.varDecl(d)
		case token.CONST:
			c.constDecl(d, false)
		case token.TYPE:
			c.typeDecl(d, false)
		}
	case *ast.AssignStmt:
		c.assign(s)
	case *ast.IncDecStmt:
		c.lhs(s.X)
		c.do("IncDec", -1, func() { cb.IncDec(s.Tok, s) })
	case *ast.GoStmt:
		c.expr(s.Call)
		c.do("Go", -1, func() { cb.Go() })
	case *ast.DeferStmt:
		c.expr(s.Call)
		c.do("Defer", -1, func() { cb.Defer() })
	case *ast.SendStmt:
		c.expr(s.Chan)
		c.expr(s.Value)
		c.do("Send", -2, func() { cb.Send() })
	case *ast.ReturnStmt:
		for _, r := range s.Results {
			c.expr(r)
		}
		c.do("Return", -len(s.Results), func() { cb.Return(len(s.Results), s) })
	case *ast.BranchStmt:
		l := c.label(s.Label)
		c.do("Branch"+s.Tok.String(), 0, func() {
			switch s.Tok {
			case token.BREAK:
				cb.Break(l)
			case token.CONTINUE:
				cb.Continue(l)
			case token.GOTO:
				cb.Goto(l)
			case token.FALLTHROUGH:
				cb.Fallthrough()
			}
		})
	case *ast.LabeledStmt:
		l := c.label(s.Label)
		c.do("Label", 0, func() { cb.Label(l) })
		c.stmt(s.Stmt)
	case *ast.BlockStmt:
		c.do("Block", 0, func() { cb.Block() })
		c.stmts(s.List)
		c.do("End", 0, func() { cb.End() })
	case *ast.IfStmt:
		c.ifStmt(s)
	case *ast.ForStmt:
		c.do("For", 0, func() { cb.For() })
		if s.Init != nil {
			c.stmt(s.Init)
		}
		if s.Cond != nil {
			c.expr(s.Cond)
		} else {
			c.do("None", 1, func() { cb.None() })
		}
		c.do("Then", -1, func() { cb.Then() })
		c.stmts(s.Body.List)
		if s.Post != nil {
			c.do("Post", 0, func() { cb.Post() })
			c.stmt(s.Post)
		}
		c.do("End", 0, func() { cb.End() })
	case *ast.RangeStmt:
		c.rangeStmt(s)
	case *ast.SwitchStmt:
		c.do("Switch", 0, func() { cb.Switch() })
		if s.Init != nil {
			c.stmt(s.Init)
		}
		if s.Tag != nil {
			c.expr(s.Tag)
		} else {
			c.do("None", 1, func() { cb.None() })
		}
		c.do("Then", NoArity, func() { cb.Then() })
		for _, cl := range s.Body.List {
			cc := cl.(*ast.CaseClause)
			c.do("Case", 0, func() { cb.Case() })
			for _, e := range cc.List {
				c.expr(e)
			}
			c.do("Then", -len(cc.List), func() { cb.Then() })
			c.stmts(cc.Body)
			c.do("End", 0, func() { cb.End() })
		}
		c.do("End", NoArity, func() { cb.End() })
	case *ast.TypeSwitchStmt:
		c.typeSwitch(s)
	case *ast.SelectStmt:
		c.do("Select", 0, func() { cb.Select() })
		for _, cl := range s.Body.List {
			cc := cl.(*ast.CommClause)
			c.do("CommCase", 0, func() { cb.CommCase() })
			if cc.Comm != nil {
				c.stmt(cc.Comm)
			}
			c.do("Then", 0, func() { cb.Then() })
			c.stmts(cc.Body)
			c.do("End", 0, func() { cb.End() })
		}
		c.do("End", 0, func() { cb.End() })
	default:
		unsupported("stmt %T", s)
	}
}

func (c *Compiler) ifStmt(s *ast.IfStmt) {
	cb := c.cb
	c.do("If", 0, func() { cb.If() })
	if s.Init != nil {
		c.stmt(s.Init)
	}
	c.expr(s.Cond)
	c.do("Then", -1, func() { cb.Then() })
	c.stmts(s.Body.List)
	if s.Else != nil {
		c.do("Else", 0, func() { cb.Else() })
		switch e := s.Else.(type) {
		case *ast.BlockStmt:
			c.stmts(e.List)
		case *ast.IfStmt:
			c.ifStmt(e)
		}
	}
	c.do("End", 0, func() { cb.End() })
}

func (c *Compiler) rangeStmt(s *ast.RangeStmt) {
	cb := c.cb
	var names []string
	if s.Tok == token.DEFINE {
		if s.Key != nil {
			names = append(names, s.Key.(*ast.Ident).Name)
		}
		if s.Value != nil {
			names = append(names, s.Value.(*ast.Ident).Name)
		}
		c.do("ForRange", 0, func() { cb.ForRange(names...) })
		c.expr(s.X)
	} else {
		c.do("ForRange", 0, func() { cb.ForRange() })
		if s.Key != nil {
			c.lhs(s.Key)
		}
		if s.Value != nil {
			c.lhs(s.Value)
		}
		c.expr(s.X)
	}
	c.do("RangeAssignThen", NoArity, func() { cb.RangeAssignThen(token.NoPos) })
	c.recordDecls(names)
	c.stmts(s.Body.List)
	c.do("End", NoArity, func() { cb.End() })
}

func (c *Compiler) typeSwitch(s *ast.TypeSwitchStmt) {
	cb := c.cb
	name := ""
	var x ast.Expr
	switch a := s.Assign.(type) {
	case *ast.AssignStmt:
		name = a.Lhs[0].(*ast.Ident).Name
		x = a.Rhs[0].(*ast.TypeAssertExpr).X
	case *ast.ExprStmt:
		x = a.X.(*ast.TypeAssertExpr).X
	}
	c.do("TypeSwitch", 0, func() { cb.TypeSwitch(name) })
	if s.Init != nil {
		c.stmt(s.Init)
	}
	c.expr(x)
	c.do("TypeAssertThen", NoArity, func() { cb.TypeAssertThen() })
	for ci, cl := range s.Body.List {
		cc := cl.(*ast.CaseClause)
		c.do("TypeCase", 0, func() { cb.TypeCase() })
		for _, e := range cc.List {
			if id, ok := e.(*ast.Ident); ok && id.Name == "nil" && c.isUniverse("nil") {
				c.do("Val", 1, func() { cb.Val(nil) })
			} else {
				t := c.toType(e)
				c.do("Typ", 1, func() { cb.Typ(t) })
			}
		}
		c.do("Then", -len(cc.List), func() { cb.Then() })
		if name != "" && name != "_" {
			if o := c.cb.Scope().Lookup(name); o != nil {
				c.Decls[fmt.Sprintf("%s#case%d", c.declKey(name), ci)] = o.Type()
			}
		}
		c.stmts(cc.Body)
		c.do("End", 0, func() { cb.End() })
	}
	c.do("End", NoArity, func() { cb.End() })
}

func (c *Compiler) isUniverse(name string) bool {
	o := c.lookup(name)
	return o != nil && o.Parent() == types.Universe
}

func (c *Compiler) assign(s *ast.AssignStmt) {
	cb := c.cb
	switch s.Tok {
	case token.DEFINE:
		names := identNamesExpr(s.Lhs)
		c.do("DefineVarStart", 0, func() { cb.DefineVarStart(s.Pos(), names...) })
		c.inInit++
		for _, r := range s.Rhs {
			c.exprN(r, len(s.Lhs), len(s.Rhs))
		}
		c.inInit--
		c.do("EndInit", -len(s.Rhs), func() { cb.EndInit(len(s.Rhs)) })
		c.recordDecls(names)
	case token.ASSIGN:
		for _, l := range s.Lhs {
			c.lhs(l)
		}
		for _, r := range s.Rhs {
			c.exprN(r, len(s.Lhs), len(s.Rhs))
		}
		c.do("AssignWith", -(len(s.Lhs) + len(s.Rhs)), func() { cb.AssignWith(len(s.Lhs), len(s.Rhs), s) })
	default: // op-assign
		c.lhs(s.Lhs[0])
		c.expr(s.Rhs[0])
		c.do("AssignOp", -2, func() { cb.AssignOp(s.Tok, s) })
	}
}

func identNamesExpr(es []ast.Expr) []string {
	r := make([]string, len(es))
	for i, e := range es {
		id, ok := e.(*ast.Ident)
		if !ok {
			feError("non-name on left side of :=")
		}
		r[i] = id.Name
	}
	return r
}

// lhs pushes an assignment target.
func (c *Compiler) lhs(e ast.Expr) {
	n0 := c.cb.InternalStack().Len()
	c.lhs2(e)
	if n1 := c.cb.InternalStack().Len(); n1 != n0+1 {
		panic(&Imbalance{fmt.Sprintf("operand stack %d -> %d across assignment target %T", n0, n1, e)})
	}
	if c.Recs != nil {
		el := c.cb.Get(-1)
		c.Recs[e] = Rec{Type: el.Type, CVal: el.CVal, Ref: true}
	}
}

func (c *Compiler) lhs2(e ast.Expr) {
	cb := c.cb
	switch e := e.(type) {
	case *ast.ParenExpr:
		c.lhs2(e.X)
	case *ast.Ident:
		if e.Name == "_" {
			c.do("VarRef", 1, func() { cb.VarRef(nil) })
			return
		}
		o := c.lookup(e.Name)
		if o == nil {
			feError("undefined: %s", e.Name)
		}
		c.do("VarRef", 1, func() { cb.VarRef(o, e) })
	case *ast.IndexExpr:
		c.expr(e.X)
		c.expr(e.Index)
		c.do("IndexRef", -1, func() { cb.IndexRef(1, e) })
	case *ast.SelectorExpr:
		if pr, ok := c.pkgRef(e.X); ok {
			c.usePkg(pr, e.Sel.Name)
			c.do("VarRef", 1, func() { cb.VarRef(pr.Ref(e.Sel.Name), e) })
			return
		}
		c.expr(e.X)
		c.do("MemberRef", 0, func() { cb.MemberRef(e.Sel.Name, e) })
	case *ast.StarExpr:
		c.expr(e.X)
		c.do("ElemRef", 0, func() { cb.ElemRef(e) })
	default:
		feError("cannot assign to %T", e)
	}
}

func (c *Compiler) usePkg(pr gogen.PkgRef, name string) {
	c.PkgUses = append(c.PkgUses, PkgUse{File: c.curFile, Path: pr.Path(), Name: name})
}

// ---------------------------------------------------------------------------- expressions

// exprN compiles a rhs expression knowing how many lhs values are expected (comma-ok forms).
func (c *Compiler) exprN(e ast.Expr, nlhs, nrhs int) {
	if nlhs == 2 && nrhs == 1 {
		c.exprTop(e, 2)
		return
	}
	c.expr(e)
}

func (c *Compiler) expr(e ast.Expr) { c.exprTop(e, 0) }

func (c *Compiler) exprTop(e ast.Expr, lhs int) {
	s0 := c.snap()
	c.expr2(e, lhs)
	s0.n++
	c.checkRestored(s0, fmt.Sprintf("expression %T", e))
	if c.Recs != nil {
		el := c.cb.Get(-1)
		c.Recs[unparen(e)] = Rec{Type: el.Type, CVal: el.CVal, CommaOk: lhs == 2 && isCommaOkForm(e), Val: el.Val, Fn: c.funcKey}
	}
}

func (c *Compiler) expr2(e ast.Expr, lhs int) {
	cb := c.cb
	twoValue := 0
	if lhs == 2 {
		twoValue = 2
	}
	switch e := e.(type) {
	case *ast.ParenExpr:
		c.expr2(e.X, lhs)
	case *ast.BasicLit:
		c.do("Val", 1, func() { cb.Val(e, e) })
	case *ast.Ident:
		c.ident(e)
	case *ast.UnaryExpr:
		if e.Op == token.AND {
			if cl, ok := unparen(e.X).(*ast.CompositeLit); ok {
				c.compositeLit(cl, nil)
			} else {
				c.lhs(e.X)
			}
			c.do("UnaryOp&", 0, func() { cb.UnaryOp(token.AND, e) })
			return
		}
		c.expr(e.X)
		c.do("UnaryOp"+e.Op.String(), 0, func() {
			if e.Op == token.ARROW && twoValue == 2 {
				cb.UnaryOpEx(token.ARROW, 2, e)
			} else {
				cb.UnaryOp(e.Op, e)
			}
		})
	case *ast.BinaryExpr:
		c.expr(e.X)
		c.expr(e.Y)
		c.do("BinaryOp"+e.Op.String(), -1, func() { cb.BinaryOp(e.Op, e) })
	case *ast.CallExpr:
		c.call(e, twoValue)
	case *ast.SelectorExpr:
		if pr, ok := c.pkgRef(e.X); ok {
			o := pr.TryRef(e.Sel.Name)
			if o == nil {
				feError("undefined: %s.%s", pr.Path(), e.Sel.Name)
			}
			c.usePkg(pr, e.Sel.Name)
			if tn, ok := o.(*types.TypeName); ok {
				c.do("Typ", 1, func() { cb.Typ(tn.Type(), e) })
				return
			}
			c.do("Val", 1, func() { cb.Val(o, e) })
			return
		}
		if c.isType(e.X) { // method expression
			t := c.toType(e.X)
			c.do("Typ", 1, func() { cb.Typ(t, e.X) })
		} else {
			c.expr(e.X)
		}
		c.do("MemberVal", 0, func() { cb.MemberVal(e.Sel.Name, twoValue, e) })
	case *ast.IndexExpr:
		if c.isType(e.Index) && !c.isType(e.X) { // explicit instantiation f[T]
			c.expr(e.X)
			t := c.toType(e.Index)
			c.do("Typ", 1, func() { cb.Typ(t, e.Index) })
			c.do("Index", -1, func() { cb.Index(1, 0, e) })
			return
		}
		if c.isType(e) {
			t := c.toType(e)
			c.do("Typ", 1, func() { cb.Typ(t, e) })
			return
		}
		c.expr(e.X)
		c.expr(e.Index)
		c.do("Index", -1, func() { cb.Index(1, twoValue, e) })
	case *ast.IndexListExpr:
		if c.isType(e) {
			t := c.toType(e)
			c.do("Typ", 1, func() { cb.Typ(t, e) })
			return
		}
		c.expr(e.X)
		for _, ix := range e.Indices {
			t := c.toType(ix)
			c.do("Typ", 1, func() { cb.Typ(t, ix) })
		}
		c.do("Index", -len(e.Indices), func() { cb.Index(len(e.Indices), 0, e) })
	case *ast.SliceExpr:
		c.expr(e.X)
		for _, ix := range []ast.Expr{e.Low, e.High} {
			if ix != nil {
				c.expr(ix)
			} else {
				c.do("None", 1, func() { cb.None() })
			}
		}
		d := -2
		if e.Slice3 {
			c.expr(e.Max)
			d = -3
		}
		c.do("Slice", d, func() { cb.Slice(e.Slice3, e) })
	case *ast.StarExpr:
		if c.isType(e) {
			t := c.toType(e)
			c.do("Typ", 1, func() { cb.Typ(t, e) })
			return
		}
		c.expr(e.X)
		c.do("Star", 0, func() { cb.Star(e) })
	case *ast.TypeAssertExpr:
		c.expr(e.X)
		t := c.toType(e.Type)
		c.do("TypeAssert", 0, func() { cb.TypeAssert(t, twoValue, e) })
	case *ast.CompositeLit:
		c.compositeLit(e, nil)
	case *ast.FuncLit:
		sig := c.toSig(nil, e.Type, nil)
		var fn *gogen.Func
		c.do("NewClosure", 0, func() { fn = cb.NewClosureWith(sig) })
		c.withLabelCheck(e.Body, "closure", func() {
			c.do("BodyStart", 0, func() { c.cb = fn.BodyStart(c.Pkg) })
			oldKey := c.funcKey
			c.funcKey = fmt.Sprintf("%s.func@%d", oldKey, len(c.Decls))
			c.recordParams(sig)
			inInit := c.inInit
			c.inInit = 0
			c.withLabels(e.Body, func() { c.stmts(e.Body.List) })
			c.inInit = inInit
			c.funcKey = oldKey
			c.do("End", 1, func() { c.cb.End(e) })
		})
	default:
		if c.isType(e) {
			t := c.toType(e)
			c.do("Typ", 1, func() { cb.Typ(t, e) })
			return
		}
		unsupported("expr %T", e)
	}
}

func isCommaOkForm(e ast.Expr) bool {
	switch x := unparen(e).(type) {
	case *ast.IndexExpr, *ast.TypeAssertExpr:
		return true
	case *ast.UnaryExpr:
		return x.Op == token.ARROW
	}
	return false
}

func unparen(e ast.Expr) ast.Expr {
	for {
		p, ok := e.(*ast.ParenExpr)
		if !ok {
			return e
		}
		e = p.X
	}
}

func (c *Compiler) ident(e *ast.Ident) {
	cb := c.cb
	if tp := c.lookupTParam(e.Name); tp != nil {
		c.do("Typ", 1, func() { cb.Typ(tp, e) })
		return
	}
	o := c.lookup(e.Name)
	if o == nil {
		feError("undefined: %s", e.Name)
	}
	switch o := o.(type) {
	case *types.Nil:
		c.do("Val", 1, func() { cb.Val(nil, e) })
	case *types.TypeName:
		c.do("Typ", 1, func() { cb.Typ(o.Type(), e) })
	default:
		c.do("Val", 1, func() { cb.Val(o, e) })
	}
}

func (c *Compiler) call(e *ast.CallExpr, twoValue int) {
	cb := c.cb
	var flags gogen.InstrFlags
	if e.Ellipsis != 0 {
		flags = gogen.InstrFlagEllipsis
	}
	fun := unparen(e.Fun)
	if c.isType(fun) {
		t := c.toType(fun)
		c.do("Typ", 1, func() { cb.Typ(t, e.Fun) })
	} else {
		c.expr(fun)
	}
	for i, a := range e.Args {
		if i == 0 && c.isType(a) { // new(T), make(T, ...), unsafe.Sizeof is a value
			t := c.toType(a)
			c.do("Typ", 1, func() { cb.Typ(t, a) })
			continue
		}
		c.expr(a)
	}
	c.do("Call", -len(e.Args), func() { cb.CallWith(len(e.Args), twoValue, flags, e) })
}

func (c *Compiler) compositeLit(e *ast.CompositeLit, elided types.Type) {
	cb := c.cb
	var typ types.Type
	if e.Type != nil {
		if at, ok := e.Type.(*ast.ArrayType); ok {
			if _, ok := at.Len.(*ast.Ellipsis); ok {
				// an open array: the builder computes the length from the elements (largest index + 1)
				typ = types.NewArray(c.toType(at.Elt), -1)
			}
		}
		if typ == nil {
			typ = c.toType(e.Type)
		}
	} else {
		typ = elided
	}
	if typ == nil {
		feError("missing type in composite literal")
	}
	under := typ.Underlying()
	if tp, ok := typ.(*types.TypeParam); ok {
		_ = tp
		unsupported("composite literal of type parameter type")
	}
	elemOf := func(t types.Type, v ast.Expr) {
		if cl, ok := v.(*ast.CompositeLit); ok && cl.Type == nil {
			if p, ok := t.Underlying().(*types.Pointer); ok {
				c.compositeLit(cl, p.Elem())
				c.do("UnaryOp&", 0, func() { cb.UnaryOp(token.AND) })
			} else {
				c.compositeLit(cl, t)
			}
			return
		}
		c.expr(v)
	}
	switch u := under.(type) {
	case *types.Struct:
		keyed := len(e.Elts) > 0
		for _, el := range e.Elts {
			if _, ok := el.(*ast.KeyValueExpr); !ok {
				keyed = false
			}
		}
		if keyed {
			for _, el := range e.Elts {
				kv := el.(*ast.KeyValueExpr)
				kid, ok := kv.Key.(*ast.Ident)
				if !ok {
					feError("invalid field name in struct literal")
				}
				name := kid.Name
				idx := -1
				for i := 0; i < u.NumFields(); i++ {
					if u.Field(i).Name() == name {
						idx = i
					}
				}
				if idx < 0 {
					feError("unknown field %s", name)
				}
				c.do("Val", 1, func() { cb.Val(idx) })
				elemOf(u.Field(idx).Type(), kv.Value)
			}
			c.do("StructLit", 1-2*len(e.Elts), func() { cb.StructLit(typ, 2*len(e.Elts), true, e) })
		} else {
			for i, el := range e.Elts {
				if _, ok := el.(*ast.KeyValueExpr); ok {
					feError("mixture of field:value and value elements in struct literal")
				}
				if i < u.NumFields() {
					elemOf(u.Field(i).Type(), el)
				} else {
					c.expr(el)
				}
			}
			c.do("StructLit", 1-len(e.Elts), func() { cb.StructLit(typ, len(e.Elts), false, e) })
		}
	case *types.Map:
		for _, el := range e.Elts {
			kv, ok := el.(*ast.KeyValueExpr)
			if !ok {
				feError("missing key in map literal")
			}
			elemOf(u.Key(), kv.Key)
			elemOf(u.Elem(), kv.Value)
		}
		c.do("MapLit", 1-2*len(e.Elts), func() { cb.MapLit(typ, 2*len(e.Elts), e) })
	case *types.Slice, *types.Array:
		var elem types.Type
		if sl, ok := u.(*types.Slice); ok {
			elem = sl.Elem()
		} else {
			elem = u.(*types.Array).Elem()
		}
		keyed := false
		for _, el := range e.Elts {
			if _, ok := el.(*ast.KeyValueExpr); ok {
				keyed = true
			}
		}
		n := len(e.Elts)
		for _, el := range e.Elts {
			if kv, ok := el.(*ast.KeyValueExpr); ok {
				c.expr(kv.Key)
				elemOf(elem, kv.Value)
			} else {
				if keyed {
					c.do("None", 1, func() { cb.None() })
				}
				elemOf(elem, el)
			}
		}
		if keyed {
			n *= 2
		}
		if _, ok := u.(*types.Slice); ok {
			c.do("SliceLit", 1-n, func() { cb.SliceLit(typ, n, keyed) })
		} else {
			c.do("ArrayLit", 1-n, func() { cb.ArrayLit(typ, n, keyed) })
		}
	default:
		feError("invalid composite literal type %v", typ)
	}
}
