package checks

import (
	"fmt"
	"go/ast"
	"go/token"
	"go/types"
	"runtime"
	"sort"
	"strconv"
	"strings"

	"github.com/goplus/gogen"
	"github.com/goplus/gogen/verif/internal/drive"
	"github.com/goplus/gogen/verif/internal/gen"
	"github.com/goplus/gogen/verif/internal/h"
	"github.com/goplus/gogen/verif/internal/ref"
)

// C09 — each file imports exactly what it uses, under names that never collide (DESIGN.md §2 C09).
// Histories are built directly through the builder API (a Go source program cannot refer to a package whose
// name is shadowed; a front end that holds PkgRef objects can).

const fxCFmt = "fx/c/fmt"
const fxDFmt = "fx/d/fmt"
const fxCUtil = "fx/c/util"
const fxCUtilSrc = "package util\n\nfunc Fn(a ...any) {}\nvar V int\n"
const fxCFmtSrc = "package fmt\n\nfunc Println(a ...any) {}\nvar V int\n"

type c09Pkg struct {
	path, fn string // function taking ...any or (N) / usable as statement call
	arg      string // "str" | "aC" | "bC"
}

var c09Pkgs = []c09Pkg{{"fmt", "Println", "str"}, {"strings", "ToUpper", "str"}, {gen.FxA, "Fn", "C"}, {gen.FxB, "Fn", "C"}, {fxCFmt, "Println", "str"}, {fxDFmt, "Println", "str"}, {fxCUtil, "Fn", "str"}, {"os", "Getenv", "str"}, {"errors", "New", "str"}}

// (names with the reserved helper prefix _autoGo_ are exercised by the dedicated scenarios c09AutoNameScenarios)
var c09Names = []string{"fmt", "util", "strings", "os", "errors", "fmt1", "util1", "util2", "strings1", "fmt2", "util3", "x", "main1"}

type c09Hist struct {
	r       *h.Rand
	pkg     *gogen.Package
	cb      *gogen.CodeBuilder
	refs    map[string]gogen.PkgRef
	file    string
	files   []string
	uses    map[string][]string // file -> qualified references "path.Name" expected in that file
	force   map[string][]string
	pkgLvl  map[string]bool
	trace   []string
	nfn     int
	discard int
	rcv     *types.Named
}

func (c *c09Hist) log(format string, a ...any) { c.trace = append(c.trace, fmt.Sprintf(format, a...)) }

func (c *c09Hist) ref(path string) gogen.PkgRef {
	if r, ok := c.refs[path]; ok {
		return r
	}
	r := c.pkg.Import(path)
	c.refs[path] = r
	return r
}

// pushCall pushes pkg.Fn(arg) onto the stack and logs the qualified references it makes.
func (c *c09Hist) pushCall(p c09Pkg, record bool) {
	r := c.ref(p.path)
	c.cb.Val(r.Ref(p.fn))
	if record {
		c.uses[c.file] = append(c.uses[c.file], p.path+"."+p.fn)
	}
	if p.arg == "C" {
		c.cb.Val(r.Ref("C"))
		if record {
			c.uses[c.file] = append(c.uses[c.file], p.path+".C")
		}
	} else {
		c.cb.Val("s")
	}
	c.cb.Call(1)
}

func (c *c09Hist) refStmt() {
	p := h.Pick(c.r, c09Pkgs)
	c.log("ref(%s)", p.path)
	c.pushCall(p, true)
	c.cb.EndStmt()
}

func (c *c09Hist) freshLocal(used map[string]bool) string {
	for t := 0; t < 20; t++ {
		n := h.Pick(c.r, c09Names)
		if !used[n] {
			used[n] = true
			return n
		}
	}
	c.nfn++
	n := "loc" + strconv.Itoa(c.nfn)
	used[n] = true
	return n
}

func (c *c09Hist) body(depth int, used map[string]bool) {
	cb := c.cb
	n := 1 + c.r.Intn(4)
	for i := 0; i < n; i++ {
		switch c.r.Intn(9) {
		case 0, 1, 2:
			c.refStmt()
		case 3: // local variable whose name may equal an import's base name, then a reference
			name := c.freshLocal(used)
			c.log("local(%s)", name)
			cb.DefineVarStart(token.NoPos, name).Val(1).EndInit(1)
			cb.VarRef(nil).Val(cb.Scope().Lookup(name)).Assign(1, 1)
			c.refStmt()
		case 4: // range with named key/value enclosing a reference
			if depth > 2 {
				c.refStmt()
				break
			}
			inner := map[string]bool{}
			k, v := c.freshLocal(inner), c.freshLocal(inner)
			c.log("range(%s,%s){", k, v)
			cb.ForRange(k, v).Val(c.pkg.Types.Scope().Lookup("gslice")).RangeAssignThen(token.NoPos)
			cb.VarRef(nil).VarRef(nil).Val(cb.Scope().Lookup(k)).Val(cb.Scope().Lookup(v)).Assign(2, 2)
			c.body(depth+1, inner)
			cb.End()
			c.log("}")
		case 5: // type switch binding enclosing a reference
			if depth > 2 {
				c.refStmt()
				break
			}
			inner := map[string]bool{}
			name := c.freshLocal(inner)
			c.log("typeswitch(%s){", name)
			cb.TypeSwitch(name).Val(c.pkg.Types.Scope().Lookup("gany")).TypeAssertThen()
			cb.TypeCase().Typ(types.Typ[types.Int]).Then()
			cb.VarRef(nil).Val(cb.Scope().Lookup(name)).Assign(1, 1)
			c.body(depth+1, inner)
			cb.End()
			cb.TypeDefaultThen()
			c.refStmt()
			cb.End()
			cb.End()
			c.log("}")
		case 6: // a reference that is built and then discarded
			p := h.Pick(c.r, c09Pkgs)
			c.log("discard(%s)", p.path)
			c.pushCall(p, false)
			cb.ResetStmt()
			c.discard++
		case 7: // closure with a parameter named like an import
			if depth > 2 {
				c.refStmt()
				break
			}
			inner := map[string]bool{}
			pn := c.freshLocal(inner)
			c.log("closure(%s){", pn)
			sig := types.NewSignatureType(nil, nil, nil, types.NewTuple(c.pkg.NewParam(token.NoPos, pn, types.Typ[types.Int], false)), nil, false)
			cb.NewClosureWith(sig).BodyStart(c.pkg)
			cb.VarRef(nil).Val(cb.Scope().Lookup(pn)).Assign(1, 1)
			c.body(depth+1, inner)
			cb.End()
			cb.Val(1).Call(1).EndStmt()
			c.log("}")
		default: // inline closure: generated helper names (_autoGo_N) next to user names
			if depth > 1 {
				c.refStmt()
				break
			}
			c.log("inline{")
			ret := c.pkg.NewParam(token.NoPos, "ret", types.Typ[types.Int], false)
			sig := types.NewSignatureType(nil, nil, nil, nil, types.NewTuple(ret), false)
			name := c.freshLocal(used)
			cb.DefineVarStart(token.NoPos, name).CallInlineClosureStart(sig, 0, false)
			c.refStmt()
			cb.Val(7).Return(1).End()
			cb.EndInit(1)
			cb.VarRef(nil).Val(cb.Scope().Lookup(name)).Assign(1, 1)
			c.log("}")
		}
	}
}

func (c *c09Hist) freshPkgName() string {
	for t := 0; t < 30; t++ {
		n := h.Pick(c.r, c09Names)
		if !c.pkgLvl[n] {
			c.pkgLvl[n] = true
			return n
		}
	}
	c.nfn++
	n := "top" + strconv.Itoa(c.nfn)
	c.pkgLvl[n] = true
	return n
}

func (c *c09Hist) run() {
	pkg := c.pkg
	c.cb = pkg.CB()
	nfiles := 1 + c.r.Intn(3)
	for i := 0; i < nfiles; i++ {
		c.files = append(c.files, fmt.Sprintf("f%d.go", i))
	}
	sw := func() {
		c.file = h.Pick(c.r, c.files)
		pkg.SetCurFile(c.file, true)
		c.log("file(%s)", c.file)
	}
	sw()
	c.cb.NewVar(types.NewSlice(types.Typ[types.Int]), "gslice")
	c.cb.NewVar(gogen.TyEmptyInterface, "gany")
	c.pkgLvl["gslice"], c.pkgLvl["gany"] = true, true
	c.rcv = pkg.NewType("Rcv").InitType(pkg, types.Typ[types.Int])
	c.pkgLvl["Rcv"] = true
	steps := 5 + c.r.Intn(12)
	for s := 0; s < steps; s++ {
		switch c.r.Intn(10) {
		case 0:
			sw()
		case 1:
			n := c.freshPkgName()
			c.log("pkgvar(%s)", n)
			c.cb.NewVar(types.Typ[types.Int], n)
		case 2:
			n := c.freshPkgName()
			c.log("pkgconst(%s)", n)
			pkg.NewConstDefs(pkg.Types.Scope()).New(func(cb *gogen.CodeBuilder) int { cb.Val(1); return 1 }, 0, token.NoPos, nil, n)
		case 3:
			n := c.freshPkgName()
			c.log("pkgtype(%s)", n)
			pkg.NewType(n).InitType(pkg, types.Typ[types.Int])
		case 4:
			p := h.Pick(c.r, c09Pkgs)
			c.log("force(%s)", p.path)
			pkg.ForceImport(p.path)
			c.force[c.file] = append(c.force[c.file], p.path)
		default:
			n := c.freshPkgName()
			if n == "main1" || strings.HasPrefix(n, "_autoGo") {
				n = c.freshPkgName()
			}
			used := map[string]bool{}
			var params, results []*types.Var
			for k := 0; k < c.r.Intn(3); k++ {
				params = append(params, pkg.NewParam(token.NoPos, c.freshLocal(used), types.Typ[types.Int], false))
			}
			if c.r.Chance(30) {
				results = append(results, pkg.NewParam(token.NoPos, c.freshLocal(used), types.Typ[types.Int], false))
			}
			var names []string
			for _, p := range append(append([]*types.Var{}, params...), results...) {
				names = append(names, p.Name())
			}
			c.log("func %s(%s){", n, strings.Join(names, ","))
			var rt *types.Tuple
			if len(results) > 0 {
				rt = types.NewTuple(results...)
			}
			var recv *types.Var
			if c.r.Chance(35) { // a method whose receiver variable may be named like an import (value or pointer receiver)
				rt := types.Type(c.rcv)
				if c.r.Chance(50) {
					rt = types.NewPointer(rt)
				}
				recv = pkg.NewParam(token.NoPos, c.freshLocal(used), rt, false)
				c.log("  receiver %s %s", recv.Name(), rt)
			}
			pkg.NewFunc(recv, n, types.NewTuple(params...), rt, false).BodyStart(pkg)
			if recv != nil {
				c.cb.VarRef(nil).Val(recv).Assign(1, 1)
			}
			for _, p := range params {
				c.cb.VarRef(nil).Val(p).Assign(1, 1)
			}
			c.body(0, used)
			if len(results) > 0 {
				c.cb.Val(0).Return(1)
			}
			c.cb.End()
			c.log("}")
			if c.r.Chance(30) {
				sw()
			}
		}
	}
}

func c09N(tier string) int {
	if tier == "thorough" {
		return 30000
	}
	return 1500
}

func c09Universe() *ref.Universe {
	u := sharedUniverse()
	if !c09Added[u] {
		u.AddSource(fxCFmt, fxCFmtSrc)
		u.AddSource(fxDFmt, fxCFmtSrc)
		u.AddSource(fxCUtil, fxCUtilSrc)
		c09Added[u] = true
	}
	return u
}

var c09Added = map[*ref.Universe]bool{}

// c09AutoNameScenarios: user identifiers with the reserved helper prefix next to an inline closure (which makes the
// builder generate _autoGo_N names). Deterministic histories.
var c09AutoNameScenarios = []string{"local _autoGo_1 before inline closure", "local _autoGo_1 after inline closure", "parameter _autoGo_1 and inline closure", "local _autoGo_2 before inline closure"}

func (c *c09Hist) autoNameScenario(k int) {
	pkg := c.pkg
	c.cb = pkg.CB()
	cb := c.cb
	c.file = ""
	c.log("%s", c09AutoNameScenarios[k])
	inline := func(target string) {
		ret := pkg.NewParam(token.NoPos, "ret", types.Typ[types.Int], false)
		sig := types.NewSignatureType(nil, nil, nil, nil, types.NewTuple(ret), false)
		cb.DefineVarStart(token.NoPos, target).CallInlineClosureStart(sig, 0, false)
		c.pushCall(c09Pkgs[0], true)
		cb.EndStmt()
		cb.Val(7).Return(1).End()
		cb.EndInit(1)
		cb.VarRef(nil).Val(cb.Scope().Lookup(target)).Assign(1, 1)
	}
	local := func(name string) {
		cb.DefineVarStart(token.NoPos, name).Val(1).EndInit(1)
		cb.VarRef(nil).Val(cb.Scope().Lookup(name)).Assign(1, 1)
	}
	var params *types.Tuple
	if k == 2 {
		params = types.NewTuple(pkg.NewParam(token.NoPos, "_autoGo_1", types.Typ[types.Int], false))
	}
	pkg.NewFunc(nil, "f", params, nil, false).BodyStart(pkg)
	switch k {
	case 0:
		local("_autoGo_1")
		inline("r")
	case 1:
		inline("r")
		local("_autoGo_1")
	case 2:
		inline("r")
	case 3:
		local("_autoGo_2")
		inline("r")
	}
	cb.End()
}

// c09DeclKinds: deterministic "sole declaration" scenarios. The base name of an imported package is declared exactly ONCE in
// the whole package, by one kind of declaration, and the package is referenced from inside that declaration's scope
// (a front end that holds PkgRef objects can build this although Go source cannot say it). The import must be renamed.
var c09DeclKinds = []string{"value receiver", "pointer receiver", "parameter", "named result", "local variable", "range key", "range value", "type-switch variable", "closure parameter",
	"package-level var", "package-level const", "package-level type", "package-level func", "package-level var in another file", "variadic parameter", "local const", "local type"}

var c09DeclPkgs = []c09Pkg{{fxCUtil, "Fn", "str"}, {"fmt", "Println", "str"}, {gen.FxA, "Fn", "C"}}

// scenario k: package k%3, kind (k/3)%17, and for k >= 51 the declared name is never used (its declaration is then the
// only occurrence of the identifier in the package)
func c09DeclScenarioName(k int) string {
	p := c09DeclPkgs[k%len(c09DeclPkgs)]
	unused := ""
	if k >= len(c09DeclKinds)*len(c09DeclPkgs) {
		unused = " (the declared name is never used)"
	}
	return fmt.Sprintf("%s named like the import %s, referenced inside its scope%s", c09DeclKinds[(k/len(c09DeclPkgs))%len(c09DeclKinds)], p.path, unused)
}

func (c *c09Hist) declScenario(k int) {
	pkg := c.pkg
	c.cb = pkg.CB()
	cb := c.cb
	p := c09DeclPkgs[k%len(c09DeclPkgs)]
	kind := c09DeclKinds[(k/len(c09DeclPkgs))%len(c09DeclKinds)]
	unused := k >= len(c09DeclKinds)*len(c09DeclPkgs)
	name := p.path[strings.LastIndexByte(p.path, '/')+1:]
	c.file = "f0.go"
	pkg.SetCurFile(c.file, true)
	c.log("%s", c09DeclScenarioName(k))
	tInt := types.Typ[types.Int]
	ref := func() {
		c.pushCall(p, true)
		cb.EndStmt()
	}
	use := func(v types.Object) {
		if !unused {
			cb.VarRef(nil).Val(v).Assign(1, 1)
		}
	}
	cb.NewVar(types.NewSlice(tInt), "gslice")
	cb.NewVar(gogen.TyEmptyInterface, "gany")
	rcv := pkg.NewType("Rcv").InitType(pkg, tInt)
	var recv *types.Var
	var params, results []*types.Var
	variadic := false
	switch kind {
	case "value receiver":
		recv = pkg.NewParam(token.NoPos, name, rcv, false)
	case "pointer receiver":
		recv = pkg.NewParam(token.NoPos, name, types.NewPointer(rcv), false)
	case "parameter":
		params = append(params, pkg.NewParam(token.NoPos, name, tInt, false))
	case "variadic parameter":
		params = append(params, pkg.NewParam(token.NoPos, name, types.NewSlice(tInt), false))
		variadic = true
	case "named result":
		results = append(results, pkg.NewParam(token.NoPos, name, tInt, false))
	case "package-level var":
		cb.NewVar(tInt, name)
	case "package-level const":
		pkg.NewConstDefs(pkg.Types.Scope()).New(func(cb *gogen.CodeBuilder) int { cb.Val(1); return 1 }, 0, token.NoPos, nil, name)
	case "package-level type":
		pkg.NewType(name).InitType(pkg, tInt)
	case "package-level func":
		pkg.NewFunc(nil, name, nil, nil, false).BodyStart(pkg).End()
	case "package-level var in another file":
		pkg.SetCurFile("f1.go", true)
		cb.NewVar(tInt, name)
		pkg.SetCurFile(c.file, true)
	}
	var rt *types.Tuple
	if len(results) > 0 {
		rt = types.NewTuple(results...)
	}
	pkg.NewFunc(recv, "f", types.NewTuple(params...), rt, variadic).BodyStart(pkg)
	if recv != nil {
		use(recv)
	}
	for _, v := range params {
		use(v)
	}
	switch kind {
	case "local variable":
		cb.DefineVarStart(token.NoPos, name).Val(1).EndInit(1)
		use(cb.Scope().Lookup(name))
		ref()
	case "local const":
		pkg.NewConstDefs(cb.Scope()).New(func(cb *gogen.CodeBuilder) int { cb.Val(1); return 1 }, 0, token.NoPos, nil, name)
		use(cb.Scope().Lookup(name))
		ref()
	case "local type":
		cb.NewType(name).InitType(pkg, tInt)
		ref()
	case "range key", "range value":
		k, v := name, "vv"
		if kind == "range value" {
			k, v = "kk", name
		}
		cb.ForRange(k, v).Val(pkg.Types.Scope().Lookup("gslice")).RangeAssignThen(token.NoPos)
		if !unused {
			cb.VarRef(nil).VarRef(nil).Val(cb.Scope().Lookup(k)).Val(cb.Scope().Lookup(v)).Assign(2, 2)
		}
		ref()
		cb.End()
	case "type-switch variable":
		cb.TypeSwitch(name).Val(pkg.Types.Scope().Lookup("gany")).TypeAssertThen()
		cb.TypeCase().Typ(tInt).Then()
		use(cb.Scope().Lookup(name))
		ref()
		cb.End()
		cb.End()
	case "closure parameter":
		sig := types.NewSignatureType(nil, nil, nil, types.NewTuple(pkg.NewParam(token.NoPos, name, tInt, false)), nil, false)
		cb.NewClosureWith(sig).BodyStart(pkg)
		use(cb.Scope().Lookup(name))
		ref()
		cb.End()
		cb.Val(1).Call(1).EndStmt()
	default:
		ref()
	}
	if len(results) > 0 {
		cb.Val(0).Return(1)
	}
	cb.End()
}

// c09Build replays import history i (or reserved-prefix scenario i-c09N) and returns the outcome before writing.
func c09Build(u *ref.Universe, tier string, seed uint64, i int) (*drive.Outcome, *gogen.Package, *c09Hist) {
	r := h.NewRand(seed, 9, uint64(i))
	o := &drive.Outcome{OpKinds: map[string]int{}}
	pkg := drive.NewPackage(u, "main", drive.Opt{Bare: i%3 == 0}, o)
	c := &c09Hist{r: r, pkg: pkg, refs: map[string]gogen.PkgRef{}, uses: map[string][]string{}, force: map[string][]string{}, pkgLvl: map[string]bool{}}
	scenario := i - c09N(tier)
	func() {
		defer func() {
			if e := recover(); e != nil {
				buf := make([]byte, 1<<14)
				n := runtime.Stack(buf, false)
				o.Stack = string(buf[:n])
				o.Status, o.Msg, o.CrashSig = drive.Classify(e, o.Stack)
			}
		}()
		if scenario >= len(c09AutoNameScenarios) {
			c.declScenario(scenario - len(c09AutoNameScenarios))
		} else if scenario >= 0 {
			c.autoNameScenario(scenario)
		} else {
			c.run()
		}
		o.Status = "accepted"
	}()
	return o, pkg, c
}

func c09Run(tier string, seed uint64, i int) []h.Result {
	if k := i - c09N(tier) - len(c09AutoNameScenarios) - c09DeclScenarios(); k >= 0 {
		return c09PositionRun(k)
	}
	u := c09Universe()
	o, pkg, c := c09Build(u, tier, seed, i)
	res := h.Result{Verdict: h.Held}
	scenario := i - c09N(tier)
	hist := strings.Join(c.trace, " ")
	res.Key = fmt.Sprintf("import history seed=%d case=%d #%x", seed, i, h.StrHash(hist))
	if scenario >= len(c09AutoNameScenarios) {
		res.Key = "sole-declaration scenario: " + c09DeclScenarioName(scenario-len(c09AutoNameScenarios))
	} else if scenario >= 0 {
		res.Key = "reserved-prefix scenario: " + c09AutoNameScenarios[scenario]
	}
	res.Input = hist
	if o.Status == "crash" {
		res.Verdict, res.Kind, res.Detail, res.NonTrivial = h.Violated, "crash: "+o.CrashSig, o.Msg+"\n"+o.Stack, true
		return []h.Result{res}
	}
	if o.Status != "accepted" || len(o.Handled) > 0 {
		msg := o.Msg
		if len(o.Handled) > 0 {
			msg = o.Handled[0]
		}
		res.Verdict, res.Kind, res.Detail, res.NonTrivial = h.Violated, "valid-history-rejected", msg, true
		return []h.Result{res}
	}
	if !o.Write(u, pkg, "main") {
		res.Verdict, res.Kind, res.Detail, res.NonTrivial = h.Violated, "write-failed:"+o.Status, o.Msg, true
		return []h.Result{res}
	}
	res.NonTrivial = len(c.refs) > 1 || scenario >= 0
	res.Count("histories", 1)
	res.Count("files_checked", int64(len(o.FileOrder)))
	res.Count("references_discarded", int64(c.discard))
	fail := func(kind, detail string) []h.Result {
		res.Verdict, res.Kind = h.Violated, kind
		res.Detail = detail + "\nhistory: " + hist + "\n" + o.Output()
		return []h.Result{res}
	}
	if len(o.OutErrs) > 0 {
		return fail("output-ill-typed: "+c09ErrClass(o.OutErrs[0]), firstN(o.OutErrs, 3))
	}
	// identifiers declared anywhere in the package
	declared := map[string]bool{}
	for _, f := range o.Out.Files {
		for id, ob := range o.Out.Info.Defs {
			if ob != nil && id.Name != "_" {
				if _, isPkg := ob.(*types.PkgName); !isPkg {
					declared[id.Name] = true
				}
			}
		}
		_ = f
	}
	for fi, f := range o.Out.Files {
		fname := o.FileOrder[fi]
		imported := map[string]string{} // path -> name
		names := map[string]bool{}
		for _, im := range f.Imports {
			path, _ := strconv.Unquote(im.Path.Value)
			name := ""
			if im.Name != nil {
				name = im.Name.Name
			} else if p, err := u.Import(path); err == nil {
				name = p.Name()
			}
			if name == "_" {
				imported[path] = "_"
				continue
			}
			if names[name] {
				return fail("import-name-duplicate", fmt.Sprintf("file %s: import name %s used twice", fname, name))
			}
			names[name] = true
			if declared[name] {
				return fail("import-name-equals-declared-identifier", fmt.Sprintf("file %s: import name %s (for %q) equals an identifier declared in the package", fname, name, path))
			}
			imported[path] = name
		}
		// qualified references as Go resolves them
		var got []string
		ast.Inspect(f, func(n ast.Node) bool {
			if se, ok := n.(*ast.SelectorExpr); ok {
				if id, ok := se.X.(*ast.Ident); ok {
					if pn, ok := o.Out.Info.Uses[id].(*types.PkgName); ok {
						got = append(got, pn.Imported().Path()+"."+se.Sel.Name)
					}
				}
			}
			return true
		})
		want := append([]string{}, c.uses[fname]...)
		sort.Strings(got)
		sort.Strings(want)
		if strings.Join(got, ",") != strings.Join(want, ",") {
			return fail("qualified-references-differ", fmt.Sprintf("file %s: references the builder was given %v, references Go resolves %v", fname, want, got))
		}
		res.Count("qualified_references_resolved", int64(len(got)))
		wantPaths := map[string]bool{}
		for _, w := range want {
			wantPaths[w[:strings.LastIndexByte(w, '.')]] = true
		}
		for _, p := range c.force[fname] {
			wantPaths[p] = true
		}
		for p := range imported {
			if !wantPaths[p] {
				return fail("import-not-used", fmt.Sprintf("file %s imports %q which is neither referenced from that file nor force-imported", fname, p))
			}
		}
		for p := range wantPaths {
			if _, ok := imported[p]; !ok {
				return fail("import-missing", fmt.Sprintf("file %s does not import %q", fname, p))
			}
		}
	}
	res.Detail = fmt.Sprintf("%d files, %d packages referenced; history: %s", len(o.FileOrder), len(c.refs), hist)
	return []h.Result{res}
}

func c09DeclScenarios() int { return 2 * len(c09DeclKinds) * len(c09DeclPkgs) }

func c09ErrClass(m string) string {
	switch {
	case strings.Contains(m, "redeclared"):
		return "redeclared"
	case strings.Contains(m, "undefined"):
		return "undefined-member"
	case strings.Contains(m, "declared and not used"):
		return "unused"
	}
	if len(m) > 50 {
		m = m[:50]
	}
	return m
}

func init() {
	h.Register(&h.Check{
		ID: "C09", Level: "exploration",
		Rule: "API-built histories: 1-3 files with current-file switches; references (kept in PkgRef objects) to 7 packages including three distinct paths with equal base names (fx/a/util, fx/b/util; std fmt and fx/c/fmt) made from function bodies, closures, range bodies, " +
			"type-switch clauses and inline closures; declarations whose names equal import base names or the names the renamer would pick (fmt, util, strings, os, errors, fmt1, util1, util2, _autoGo_1, ...) as package-level var/const/type/func, parameters, named results, locals, " +
			"range variables, type-switch bindings and closure parameters, before and after the references; references built and discarded with ResetStmt; ForceImport. Oracle per written file (go/parser + go/types with the same importer): the package type-checks; import names are unique in the file " +
			"and differ from every identifier declared in the package; the multiset of (import path, member) that Go resolves for qualified identifiers equals the multiset the history made from that file; the import set equals referenced ∪ force-imported paths. " +
			"SOLE-DECLARATION scenarios (both tiers, deterministic): the base name of an imported package is declared exactly once in the whole package by one of 17 kinds of declaration (value / pointer receiver, parameter, variadic parameter, named result, local variable / constant / type, range key / value, type-switch variable, closure parameter, package-level var / const / type / func, package-level var of another file) and the package is referenced inside that scope, for 3 packages, with and without a use of the declared name (without: the declaration is the only occurrence of the identifier). " +
			"POSITION SWEEP (both tiers, deterministic): ~160 one-declaration programs in which a package is referenced exactly once, from one syntactic position (variadic parameter type, array length, case clause, composite-literal key, constraint term, method expression, defer/go call, select clause ...), alone and next to an equally named package: the import must survive, be uniquely named, and the reference must resolve to it. " +
			"non-trivial = history referencing at least 2 packages, or a position program that was built; distinct by history text / position",
		Assume: []string{"go/types Info.Uses (PkgName) on the re-checked output", "import order is not part of the property"},
		MinNT:  100,
		Plan:   func(tier string, seed uint64) int { return c09N(tier) + len(c09AutoNameScenarios) + c09DeclScenarios() + c09PositionCases() },
		Run:    c09Run,
	})
}
