package checks

import (
	"fmt"

	"github.com/goplus/gogen/verif/internal/drive"
	"github.com/goplus/gogen/verif/internal/h"
)

var allCats = []string{"operator", "shift", "conv", "assign", "compare", "builtin", "access", "constgroup"}

var c01def = &atomCheckDef{id: "C01", cats: allCats, cfgs: []string{"default", "xgo"}, per: 1, judge: judgeC01, noComp: true}

// C01 program layer: valid generated programs, programs with one injected fault, corpus programs, multi-file splits.
func c01ExtraN(tier string) int {
	if tier == "thorough" {
		return 30000
	}
	return 1200
}

func c01Extra(tier string, seed uint64, i int) []h.Result {
	var p progSpec
	opt := drive.Opt{NoCompare: true}
	nc := len(Corpus())
	switch {
	case i < nc:
		c := Corpus()[i]
		p = progSpec{kind: "corpus", src: []string{c.Src}, key: "corpus " + c.Name}
	case i%4 == 0:
		p = mkProg("C01", seed, i, false, false)
	case i%4 == 1:
		p = mkProg("C01", seed, i, false, false)
		p.src, p.names = splitFiles(p.src[0], h.NewRand(seed, 7, uint64(i)))
		p.kind = "multi"
		p.key = fmt.Sprintf("generated multi-file program seed=%d case=%d (%d files)", seed, i, len(p.src))
	default:
		p = mkProg("C01", seed, i, true, i%8 == 3)
	}
	if i%16 == 5 {
		opt.XGo = true
	}
	o := runProg(p, opt)
	r := judgeC01(p.key, o)
	if p.kind == "fault" && p.fault != "" && o.Status == "accepted" && len(o.OutErrs) == 0 && !o.SrcValid {
		// the fault was silently repaired or dropped: the output type-checks although the source does not
		r.Count("fault_accepted_output_ok", 1)
	}
	progResultExtras(&r, p, o)
	return []h.Result{r}
}

func init() {
	d := c01def
	d.extraN = c01ExtraN
	d.extraRun = c01Extra
	h.Register(&h.Check{
		ID:    "C01",
		Level: "exploration",
		Rule: "atom layer: every catalogue atom (operator x operand x operand, shifts with extreme counts, conversions, assignment contexts x value x target, comparisons/case clauses, builtins x argument classes, " +
			"index/slice/selector/assert/range/statement-header forms) as a one-statement program under the default and the XGo-builtin configuration; thorough enumerates the catalogues completely, quick takes a seed-permuted " +
			"stratified sample (every operator-class x operand-class stratum). program layer: type-directed random programs, their mutants and the corpus with mutants. Every accepted build is printed, re-parsed and type-checked " +
			"by go/types with the same importer objects. non-trivial = builder verdict reached (accepted and re-checked, or an invalid program rejected); distinct by input text+configuration",
		Assume: []string{"go/types of the running toolchain is the reference for well-typedness", "front-end rejections (undefined names, unsupported syntax) are not builder verdicts and are skipped"},
		MinNT:  100,
		Plan:   d.Plan, Run: d.Run, Describe: d.Describe,
		Exhaustive: func(tier string) bool { return false },
	})
}
