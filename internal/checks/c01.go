package checks

import (
	"github.com/goplus/gogen/verif/internal/h"
)

var allCats = []string{"operator", "shift", "conv", "assign", "compare", "builtin", "access"}

var c01def = &atomCheckDef{id: "C01", cats: allCats, cfgs: []string{"default", "xgo"}, per: 1, judge: judgeC01, noComp: true}

func init() {
	d := c01def
	h.Register(&h.Check{
		ID:    "C01",
		Level: "exploration",
		Rule: "atom layer: every catalogue atom (operator x operand x operand, shifts with extreme counts, conversions, assignment contexts x value x target, comparisons/case clauses, builtins x argument classes, " +
			"index/slice/selector/assert/range/statement-header forms) as a one-statement program under the default and the XGo-builtin configuration; thorough enumerates the catalogues completely, quick takes a seed-permuted " +
			"stratified sample (every operator-class x operand-class stratum). program layer: type-directed random programs, their mutants and the corpus with mutants. Every accepted build is printed, re-parsed and type-checked " +
			"by go/types with the same importer objects. non-trivial = builder verdict reached (accepted and re-checked, or an invalid program rejected); distinct by input text+configuration",
		Assume: []string{"go/types of the running toolchain is the reference for well-typedness", "front-end rejections (undefined names, unsupported syntax) are not builder verdicts and are skipped"},
		MinNT:  100,
		Plan:   d.Plan, Run: d.Run, Describe: d.Describe,
		Exhaustive: func(tier string) bool { return false },
	})
}
