package checks

import (
	"bytes"
	"fmt"
	"go/ast"
	goformat "go/format"
	"go/parser"
	goprinter "go/printer"
	"go/token"
	"os"
	"path/filepath"
	"runtime"
	"sort"
	"strings"
	"sync"

	"github.com/goplus/gogen/internal/go/format"
	"github.com/goplus/gogen/internal/go/printer"
	"github.com/goplus/gogen/verif/internal/gen"
	"github.com/goplus/gogen/verif/internal/h"
	"github.com/goplus/gogen/verif/internal/ref"
)

// C12 — printing is lossless and canonical (DESIGN.md §2 C12).
// The forked formatter is called directly on *printer.CommentedNodes — the exact path Package.WriteTo uses
// (the harness module may import gogen's internal packages: the internal/ rule is decided on import paths).

var (
	stdOnce  sync.Once
	stdFiles []string
)

func stdFileList() []string {
	stdOnce.Do(func() {
		root := filepath.Join(runtime.GOROOT(), "src")
		if r, err := filepath.EvalSymlinks(root); err == nil {
			root = r
		}
		filepath.Walk(root, func(p string, info os.FileInfo, err error) error {
			if err != nil {
				return nil
			}
			if info.IsDir() {
				if info.Name() == "testdata" || info.Name() == "vendor" {
					return filepath.SkipDir
				}
				return nil
			}
			if strings.HasSuffix(p, ".go") && !strings.HasSuffix(p, "_test.go") {
				stdFiles = append(stdFiles, p)
			}
			return nil
		})
		sort.Strings(stdFiles)
	})
	return stdFiles
}

func forkPrint(node any, commented map[ast.Stmt]*ast.CommentGroup) (out []byte, crash string, err error) {
	defer func() {
		if e := recover(); e != nil {
			crash = fmt.Sprint(e)
		}
	}()
	var b bytes.Buffer
	err = format.Node(&b, token.NewFileSet(), &printer.CommentedNodes{Node: node, CommentedStmts: commented})
	return b.Bytes(), "", err
}

// listStmts returns the statements that are elements of statement lists, in pre-order.
func listStmts(n ast.Node) []ast.Stmt {
	var out []ast.Stmt
	add := func(list []ast.Stmt) {
		for _, s := range list {
			if _, empty := s.(*ast.EmptyStmt); !empty {
				out = append(out, s)
			}
		}
	}
	_ = add
	ast.Inspect(n, func(x ast.Node) bool {
		var list []ast.Stmt
		switch v := x.(type) {
		case *ast.BlockStmt:
			list = v.List
		case *ast.CaseClause:
			list = v.Body
		case *ast.CommClause:
			list = v.Body
		}
		for _, s := range list {
			if _, empty := s.(*ast.EmptyStmt); !empty {
				out = append(out, s)
			}
		}
		return true
	})
	return out
}

// c12Tree checks one position-free tree. attach > 0 attaches that many statement comments.
func c12Tree(key string, file *ast.File, r *h.Rand, attach int, validate bool) h.Result {
	res := h.Result{Key: key, Verdict: h.Held, NonTrivial: true}
	fail := func(kind, detail string, text []byte) h.Result {
		res.Verdict, res.Kind, res.Detail = h.Violated, kind, detail
		if text != nil {
			res.Input = string(text)
		}
		return res
	}
	want := ref.ASTDump(file)
	if validate {
		// legality guard: the standard printer must print this tree to something that parses back to the same tree
		var sb bytes.Buffer
		if err := (&goprinter.Config{Mode: goprinter.UseSpaces | goprinter.TabIndent, Tabwidth: 8}).Fprint(&sb, token.NewFileSet(), file); err != nil {
			res.Verdict, res.Kind = h.Skip, "tree-not-printable-by-go/printer"
			return res
		}
		f2, err := parser.ParseFile(token.NewFileSet(), "std.go", sb.Bytes(), parser.SkipObjectResolution)
		if err != nil {
			res.Verdict, res.Kind, res.Detail = h.Skip, "tree-not-legal", err.Error()
			return res
		}
		ref.StripPositions(f2)
		if ref.ASTDump(f2) != want {
			res.Verdict, res.Kind = h.Skip, "tree-not-legal(std printer changes it)"
			return res
		}
	}
	var commented map[ast.Stmt]*ast.CommentGroup
	var markers []string
	var markStmt []int
	stmts := listStmts(file)
	if attach > 0 && len(stmts) > 0 {
		commented = map[ast.Stmt]*ast.CommentGroup{}
		for k := 0; k < attach; k++ {
			i := r.Intn(len(stmts))
			if _, dup := commented[stmts[i]]; dup {
				continue
			}
			m := fmt.Sprintf("MARK_%d_%d", k, r.Intn(1000000))
			cg := &ast.CommentGroup{List: []*ast.Comment{{Text: "// " + m}}}
			if r.Chance(25) {
				cg.List = append(cg.List, &ast.Comment{Text: "// second line of " + m})
			}
			commented[stmts[i]] = cg
			markers = append(markers, m)
			markStmt = append(markStmt, i)
		}
	}
	out, crash, err := forkPrint(file, commented)
	if crash != "" {
		return fail("printer-panic", crash, nil)
	}
	if err != nil {
		return fail("printer-error", err.Error(), nil)
	}
	res.Count("bytes_printed", int64(len(out)))
	fset := token.NewFileSet()
	f2, err := parser.ParseFile(fset, "out.go", out, parser.ParseComments|parser.SkipObjectResolution)
	if err != nil {
		return fail("output-does-not-parse", err.Error(), out)
	}
	// comments first (positions are needed)
	if len(markers) > 0 {
		st2 := listStmts(f2)
		text := string(out)
		for k, m := range markers {
			if c := strings.Count(text, "// "+m); c != 1 {
				return fail("comment-count", fmt.Sprintf("comment %s attached to a %T appears %d times", m, stmts[markStmt[k]], c), out)
			}
			if len(st2) != len(stmts) {
				continue
			}
			s2 := st2[markStmt[k]]
			var cg *ast.CommentGroup
			for _, g := range f2.Comments {
				if strings.Contains(g.Text(), m) {
					cg = g
				}
			}
			if cg == nil {
				return fail("comment-lost", "comment "+m+" not found by the parser", out)
			}
			if cl, sl := fset.Position(cg.End()).Line, fset.Position(s2.Pos()).Line; sl != cl+1 {
				return fail("comment-misplaced", fmt.Sprintf("comment %s ends on line %d but its statement (%T) starts on line %d", m, cl, s2, sl), out)
			}
			res.Count("comments_verified", 1)
		}
	}
	ref.StripPositions(f2)
	if got := ref.ASTDump(f2); got != want {
		i := 0
		for i < len(got) && i < len(want) && got[i] == want[i] {
			i++
		}
		lo := max(0, i-120)
		return fail("structure-changed", fmt.Sprintf("re-parsed tree differs at offset %d:\n  tree:   …%s\n  output: …%s", i, want[lo:min(len(want), i+120)], got[lo:min(len(got), i+120)]), out)
	}
	res.Count("nodes_compared", int64(strings.Count(want, "(")))
	if len(markers) == 0 {
		fm, err := goformat.Source(out)
		if err != nil {
			return fail("gofmt-error", err.Error(), out)
		}
		if !bytes.Equal(fm, out) {
			// guard: if the standard go/printer prints this position-free tree to the very same text, the
			// non-idempotence is go/printer's own (known for some position-free trees), not the fork's
			var sb bytes.Buffer
			if err := (&goprinter.Config{Mode: goprinter.UseSpaces | goprinter.TabIndent, Tabwidth: 8}).Fprint(&sb, token.NewFileSet(), file); err == nil && bytes.Equal(sb.Bytes(), out) {
				res.Count("std_printer_equally_not_a_fixed_point", 1)
				res.Detail = "output equals go/printer's output for the same tree; go/format is not idempotent on it"
				return res
			}
			a, b := strings.Split(string(out), "\n"), strings.Split(string(fm), "\n")
			if validate && indentOnly(a, b) {
				// recorded finding KF-C12-INDENT (fixture funclit_multiline_result_in_return): identified by its mechanism —
				// the only difference go/format makes is ADDING leading tabs to continuation lines; any other
				// non-fixed-point, and any such difference on standard-library files or fixtures, keeps its own identity
				res.Input = string(out)
				res.Detail = "tree: " + key
				res.Key = c12IndentKey
				res.Verdict, res.Kind = h.Violated, "not-gofmt-fixed-point:indent-only"
				return res
			}
			d := ""
			for i := range a {
				if i >= len(b) || a[i] != b[i] {
					bb := ""
					if i < len(b) {
						bb = b[i]
					}
					d = fmt.Sprintf("line %d: printed %q, go/format gives %q", i+1, a[i], bb)
					break
				}
			}
			return fail("not-gofmt-fixed-point", d, out)
		}
		res.Count("fixed_points", 1)
	}
	return res
}

const c12IndentKey = "generated trees: continuation lines of a multi-line operand inside a multi-line expression list are indented one level less than go/format indents them"

// indentOnly reports whether b differs from a only by additional leading tabs.
func indentOnly(a, b []string) bool {
	if len(a) != len(b) {
		return false
	}
	diff := false
	for i := range a {
		if a[i] == b[i] {
			continue
		}
		ta, tb := strings.TrimLeft(a[i], "\t"), strings.TrimLeft(b[i], "\t")
		if ta != tb || len(b[i]) <= len(a[i]) {
			return false
		}
		diff = true
	}
	return diff
}

func c12N(tier string) (std, asts, cm int) {
	if tier == "thorough" {
		return len(stdFileList()), 40000, 10000
	}
	return 1500, 8000, 3000
}

func c12Fixtures() []string {
	fs, _ := filepath.Glob(filepath.Join(h.Root(), "fixtures", "c12", "*.go.txt"))
	sort.Strings(fs)
	return fs
}

func c12Run(tier string, seed uint64, i int) []h.Result {
	nstd, nast, ncm := c12N(tier)
	if i >= nstd+nast+ncm { // fixture trees (regression inputs and recorded findings)
		fn := c12Fixtures()[i-nstd-nast-ncm]
		f, err := parser.ParseFile(token.NewFileSet(), fn, nil, parser.SkipObjectResolution)
		if err != nil {
			return []h.Result{{Key: "fixture " + filepath.Base(fn), Verdict: h.Skip, Kind: "fixture-does-not-parse", Detail: err.Error()}}
		}
		ref.StripPositions(f)
		res := c12Tree("fixture "+filepath.Base(fn), f, h.NewRand(1), 0, false)
		res.Tag("src:fixture")
		return []h.Result{res}
	}
	switch {
	case i < nstd:
		files := stdFileList()
		idx := i
		if tier != "thorough" {
			idx = int(h.Mix(seed, 12, uint64(i)) % uint64(len(files)))
		}
		fn := files[idx]
		rel := fn[strings.Index(fn, "/src/")+5:]
		f, err := parser.ParseFile(token.NewFileSet(), fn, nil, parser.SkipObjectResolution)
		if err != nil {
			return []h.Result{{Key: "std " + rel, Verdict: h.Skip, Kind: "std-file-does-not-parse"}}
		}
		ref.StripPositions(f)
		ref.SortImports(f)
		r := h.NewRand(seed, 1212, uint64(i))
		attach := 0
		if i%3 == 2 {
			attach = 1 + r.Intn(6)
		}
		res := c12Tree("std "+rel, f, r, attach, false)
		res.Tag("src:std")
		return []h.Result{res}
	case i < nstd+nast:
		r := h.NewRand(seed, 121212, uint64(i))
		g := &gen.ASTGen{R: r}
		f := g.File(1 + r.Intn(4))
		res := c12Tree(fmt.Sprintf("generated tree seed=%d case=%d #%x", seed, i, h.StrHash(ref.ASTDump(f))), f, r, 0, true)
		res.Tag("src:generated")
		return []h.Result{res}
	default:
		r := h.NewRand(seed, 12121212, uint64(i))
		g := &gen.ASTGen{R: r}
		f := g.File(2 + r.Intn(3))
		res := c12Tree(fmt.Sprintf("generated tree with comments seed=%d case=%d #%x", seed, i, h.StrHash(ref.ASTDump(f))), f, r, 1+r.Intn(5), true)
		res.Tag("src:generated+comments")
		return []h.Result{res}
	}
}

func init() {
	h.Register(&h.Check{
		ID: "C12", Level: "exploration",
		Rule: "the forked formatter (internal/go/format.Node on *printer.CommentedNodes, the path WriteTo uses) is run on position-free trees: (a) files of GOROOT/src (thorough: all ~4300 non-test files; quick: 500 seed-sampled) with every position and comment stripped " +
			"(only the three syntax-bearing positions kept as sentinels), (b) generated trees without any ParenExpr targeting operator precedence/associativity pairs, unary chains (- -x, & &x, <- <-c, ^ -x), conversion to *T/<-chan T/func types, channel-type nesting, " +
			"composite/function literals in statement headers, type parameter lists, struct tags, labeled and empty statements — each first validated as legal by the standard go/printer round trip, (c) both with 1-6 comment groups attached to randomly chosen statements. " +
			"Oracle: output parses; re-parsed tree has the same structural dump (positions, comments, redundant parentheses, non-labeled empty statements excluded); output is a fixed point of go/format.Source; every attached comment occurs exactly once and ends on the line directly before its statement. " +
			"non-trivial = tree printed and compared; distinct by file / tree hash",
		Assume: []string{"go/parser and go/format of the running toolchain", "trees the standard printer cannot round-trip are not legal inputs and are skipped"},
		MinNT:  200,
		Plan: func(tier string, seed uint64) int {
			a, b, c := c12N(tier)
			return a + b + c + len(c12Fixtures())
		},
		Run: c12Run,
	})
}
