package checks

import (
	"fmt"
	"go/types"
	"sort"
	"strings"
	"sync"

	"github.com/goplus/gogen"
	"github.com/goplus/gogen/typeutil"
	"github.com/goplus/gogen/verif/internal/gen"
	"github.com/goplus/gogen/verif/internal/h"
	"github.com/goplus/gogen/verif/internal/ref"
)

// C19 — the type-keyed map is a map over type identity (DESIGN.md §2 C19).
// Model: association list scanned with types.Identical. Observations after every operation.

func init() {
	h.Register(&h.Check{
		ID:    "C19",
		Level: "exploration",
		Race:  true,
		Rule: "case = one history of 60-400 Set/Delete/At/Len/Keys/Iterate operations on typeutil.Map over a pool of ~90 type objects " +
			"(each random type expression type-checked as 2 distinct objects + a permuted/colliding variant: struct fields permuted, interface methods permuted or deep-changed, " +
			"union terms permuted, generic signatures with renamed type parameters, aliases, instantiations); after EVERY operation At(all pool keys), Len, Keys and Iterate are " +
			"compared with an association list that uses types.Identical; hash law checked on all pool pairs; a read-only phase runs At/Len/Keys/Iterate from 4 goroutines under the race detector; " +
			"the production client Package.BuiltinTI is queried with every pool type against its own answer on an identical distinct object. " +
			"non-trivial = history in which at least one Set hit an existing identical-but-distinct key and one Delete/re-insert reused a bucket; distinct by history hash",
		Assume: []string{"go/types.Identical is the reference for type identity", "Go race detector for the read-only concurrency clause"},
		MinNT:  2,
		Plan: func(tier string, seed uint64) int {
			if tier == "thorough" {
				return 4000
			}
			return 240
		},
		Run: runC19,
	})
}

type c19pool struct {
	types []types.Type
	descr []string
}

var theUniverse *ref.Universe

// sharedUniverse is the per-process importer (std packages are type-checked from source once).
func sharedUniverse() *ref.Universe {
	if theUniverse == nil {
		theUniverse = newFixtureUniverse()
	}
	return theUniverse
}

func newFixtureUniverse() *ref.Universe {
	u := ref.NewUniverse()
	u.AddSource(gen.FxA, gen.FxASrc)
	u.AddSource(gen.FxB, gen.FxBSrc)
	return u
}

func permStrings(r *h.Rand, xs []string) []string {
	p := r.Perm(len(xs))
	out := make([]string, len(xs))
	for i, j := range p {
		out[i] = xs[j]
	}
	return out
}

func buildC19Pool(u *ref.Universe, r *h.Rand, n int) (*c19pool, string, error) {
	g := &gen.TypeGen{R: r}
	var sb strings.Builder
	sb.WriteString("package pool\n" + gen.TypeImports + gen.TypePrelude + gen.TypeUses)
	var names []string
	decl := func(t string) {
		nm := fmt.Sprintf("v%d", len(names))
		names = append(names, nm)
		fmt.Fprintf(&sb, "var %s %s\n", nm, t)
	}
	for i := 0; i < n; i++ {
		switch r.Intn(8) {
		case 0: // struct with permuted fields (non-identical, equal hash: a deliberate collision)
			fs := []string{"A " + g.Type(1), "B " + g.Type(1), "C " + g.Type(2)}
			decl("struct{" + strings.Join(fs, "; ") + "}")
			decl("struct{" + strings.Join(fs, "; ") + "}")
			decl("struct{" + strings.Join(permStrings(r, fs), "; ") + "}")
		case 1: // interface with permuted methods (identical), and with a deep change (collision under shallow hash)
			ms := []string{"X0(" + g.Type(1) + ") []int", "X1() " + g.Type(1), "X2(...string)"}
			decl("interface{" + strings.Join(ms, "; ") + "}")
			decl("interface{" + strings.Join(permStrings(r, ms), "; ") + "}")
			ms2 := append([]string{}, ms...)
			ms2[0] = strings.TrimSuffix(ms2[0], "[]int") + "[]string"
			decl("interface{" + strings.Join(ms2, "; ") + "}")
		case 2: // alias vs target vs other
			t := g.Type(2)
			decl(t)
			nm := fmt.Sprintf("Al%d", len(names))
			fmt.Fprintf(&sb, "type %s = %s\n", nm, t)
			decl(nm)
			decl("[]" + nm)
		case 3: // instantiations created in different contexts
			t := g.Type(1)
			decl("G1[" + t + "]")
			decl("G1[" + t + "]")
			decl("*autil.G[" + t + "]")
		default:
			t := g.Type(3)
			decl(t)
			decl(t)
			decl(g.Type(2))
		}
	}
	// generic signatures with renamed type parameters; union terms permuted
	var fnames []string
	for i := 0; i < 4; i++ {
		c := g.Constraint()
		body := strings.TrimSuffix(strings.TrimPrefix(c, "interface{ "), " }")
		parts := strings.Split(body, "; ")
		terms := strings.Split(parts[0], " | ")
		parts[0] = strings.Join(permStrings(r, terms), " | ")
		c2 := "interface{ " + strings.Join(parts, "; ") + " }"
		pt := (&gen.TypeGen{R: r, TParams: []string{"T"}}).Type(2)
		pu := strings.ReplaceAll(pt, "T", "T") // same shape; renaming done below on whole signature text
		f1 := fmt.Sprintf("func gf%da[T %s, E any](x T, y []E, z %s) map[string]T { return nil }\n", i, c, pt)
		f2 := fmt.Sprintf("func gf%db[U %s, F any](x U, y []F, z %s) map[string]U { return nil }\n", i, c2, renameTP(pu, "T", "U"))
		f3 := fmt.Sprintf("func gf%dc[T %s, E any](x E, y []T, z %s) map[string]T { return nil }\n", i, c, pt)
		sb.WriteString(f1 + f2 + f3)
		fnames = append(fnames, fmt.Sprintf("gf%da", i), fmt.Sprintf("gf%db", i), fmt.Sprintf("gf%dc", i))
	}
	src := sb.String()
	ck := u.Check("pool", src)
	if len(ck.Errs) > 0 {
		return nil, src, fmt.Errorf("pool source does not type-check: %s", ck.Errs[0])
	}
	p := &c19pool{}
	for _, nm := range names {
		o := ck.Pkg.Scope().Lookup(nm)
		p.types = append(p.types, o.Type())
		p.descr = append(p.descr, types.TypeString(o.Type(), nil))
	}
	for _, nm := range fnames {
		o := ck.Pkg.Scope().Lookup(nm)
		p.types = append(p.types, o.Type())
		p.descr = append(p.descr, nm+": "+types.TypeString(o.Type(), nil))
	}
	// tuples
	for i := 0; i+1 < len(names) && i < 8; i += 2 {
		a, b := ck.Pkg.Scope().Lookup(names[i]).Type(), ck.Pkg.Scope().Lookup(names[i+1]).Type()
		for k := 0; k < 2; k++ {
			tp := types.NewTuple(types.NewVar(0, nil, "", a), types.NewVar(0, nil, fmt.Sprintf("n%d", k), b))
			p.types = append(p.types, tp)
			p.descr = append(p.descr, "tuple"+tp.String())
		}
	}
	return p, src, nil
}

// renameTP renames the identifier from to the identifier to (whole words only).
func renameTP(s, from, to string) string {
	var out strings.Builder
	isId := func(c byte) bool {
		return c == '_' || (c >= 'a' && c <= 'z') || (c >= 'A' && c <= 'Z') || (c >= '0' && c <= '9')
	}
	for i := 0; i < len(s); {
		if isId(s[i]) {
			j := i
			for j < len(s) && isId(s[j]) {
				j++
			}
			w := s[i:j]
			if w == from && (i == 0 || s[i-1] != '.' || (i >= 2 && s[i-2] == '.')) {
				w = to
			}
			out.WriteString(w)
			i = j
			continue
		}
		out.WriteByte(s[i])
		i++
	}
	return out.String()
}

// skipBTI: tuples are not value types; a top-level alias is pre-normalised by BuiltinTI's own type switch
// (not by the map) — alias receivers are exercised under C11, where that behaviour belongs.
func skipBTI(t types.Type) bool {
	switch t.(type) {
	case *types.Tuple, *types.Alias:
		return true
	}
	return false
}

type c19model struct {
	keys []types.Type
	vals []int
}

func (m *c19model) find(k types.Type) int {
	for i, x := range m.keys {
		if types.Identical(x, k) {
			return i
		}
	}
	return -1
}

func runC19(tier string, seed uint64, i int) []h.Result {
	r := h.NewRand(seed, 19, uint64(i))
	u := sharedUniverse()
	res := h.Result{Key: fmt.Sprintf("history seed=%d case=%d", seed, i), Verdict: h.Held}
	pool, src, err := buildC19Pool(u, r, 14+r.Intn(8))
	if err != nil {
		res.Verdict, res.Kind, res.Detail, res.Input = h.Inconclusive, "pool-invalid", err.Error(), src
		return []h.Result{res}
	}
	fail := func(kind, detail string) []h.Result {
		res.Verdict, res.Kind, res.Detail, res.Input = h.Violated, kind, detail, src
		return []h.Result{res}
	}
	np := len(pool.types)
	// hash law on all pairs
	hs := typeutil.MakeHasher()
	var identPairs, collPairs int64
	for a := 0; a < np; a++ {
		for b := a + 1; b < np; b++ {
			id := types.Identical(pool.types[a], pool.types[b])
			ha, hb := hs.Hash(pool.types[a]), hs.Hash(pool.types[b])
			if id {
				if pool.types[a] != pool.types[b] {
					identPairs++
				}
				if ha != hb {
					return fail("hash-law", fmt.Sprintf("Identical(%s, %s) but Hash %d != %d", pool.descr[a], pool.descr[b], ha, hb))
				}
			} else if ha == hb {
				collPairs++
			}
		}
	}
	res.Count("pairs_checked", int64(np*(np-1)/2))
	res.Count("identical_distinct_pairs", identPairs)
	res.Count("colliding_nonidentical_pairs", collPairs)

	var m *typeutil.Map
	if r.Bool() {
		m = new(typeutil.Map)
	}
	model := &c19model{}
	var trace []string
	nops := 60 + r.Intn(340)
	if tier == "quick" {
		nops = 60 + r.Intn(140)
	}
	var hitExisting, reinserts, deletes int64
	nextVal := 1
	everDeleted := map[int]bool{}
	checkAll := func(step int) (string, string) {
		if m.Len() != len(model.keys) {
			return "len", fmt.Sprintf("step %d: Len()=%d model=%d", step, m.Len(), len(model.keys))
		}
		for pi, p := range pool.types {
			got := m.At(p)
			j := model.find(p)
			if j < 0 {
				if got != nil {
					return "at-phantom", fmt.Sprintf("step %d: At(%s)=%v but key absent in model", step, pool.descr[pi], got)
				}
			} else if got != model.vals[j] {
				return "at-wrong", fmt.Sprintf("step %d: At(%s)=%v model=%d", step, pool.descr[pi], got, model.vals[j])
			}
		}
		var keys []types.Type
		if m != nil {
			keys = m.Keys()
		}
		if len(keys) != len(model.keys) {
			return "keys-count", fmt.Sprintf("step %d: len(Keys())=%d model=%d", step, len(keys), len(model.keys))
		}
		used := make([]bool, len(keys))
		for _, mk := range model.keys {
			found := false
			for ki, k := range keys {
				if !used[ki] && types.Identical(k, mk) {
					used[ki], found = true, true
					break
				}
			}
			if !found {
				return "keys-missing", fmt.Sprintf("step %d: model key %s not in Keys()", step, mk)
			}
		}
		var vals []int
		m.Iterate(func(k types.Type, v any) {
			vals = append(vals, v.(int))
		})
		mv := append([]int{}, model.vals...)
		sort.Ints(vals)
		sort.Ints(mv)
		if fmt.Sprint(vals) != fmt.Sprint(mv) {
			return "iterate", fmt.Sprintf("step %d: Iterate values %v model %v", step, vals, mv)
		}
		return "", ""
	}
	for step := 0; step < nops; step++ {
		pi := r.Intn(np)
		if r.Chance(50) && len(model.keys) > 0 { // bias towards keys identical to present ones
			mk := model.keys[r.Intn(len(model.keys))]
			for t := 0; t < 8; t++ {
				q := r.Intn(np)
				if types.Identical(pool.types[q], mk) {
					pi = q
					break
				}
			}
		}
		k := pool.types[pi]
		op := r.Intn(10)
		if m == nil && op < 5 {
			m = new(typeutil.Map)
		}
		switch {
		case op < 5:
			v := nextVal
			nextVal++
			prev := m.Set(k, v)
			j := model.find(k)
			trace = append(trace, fmt.Sprintf("Set(#%d,%d)", pi, v))
			if j >= 0 {
				if model.keys[j] != k {
					hitExisting++
				}
				if prev != model.vals[j] {
					return fail("set-prev", fmt.Sprintf("step %d: Set(%s) returned prev=%v model=%d\ntrace: %s", step, pool.descr[pi], prev, model.vals[j], strings.Join(trace, " ")))
				}
				model.vals[j] = v
			} else {
				if prev != nil {
					return fail("set-prev", fmt.Sprintf("step %d: Set(%s) returned prev=%v for a new key\ntrace: %s", step, pool.descr[pi], prev, strings.Join(trace, " ")))
				}
				if everDeleted[pi] {
					reinserts++
				}
				model.keys = append(model.keys, k)
				model.vals = append(model.vals, v)
			}
		case op < 8:
			got := m.Delete(k)
			j := model.find(k)
			trace = append(trace, fmt.Sprintf("Delete(#%d)", pi))
			if got != (j >= 0) {
				return fail("delete-result", fmt.Sprintf("step %d: Delete(%s)=%v model has key: %v\ntrace: %s", step, pool.descr[pi], got, j >= 0, strings.Join(trace, " ")))
			}
			if j >= 0 {
				deletes++
				for q := range pool.types {
					if types.Identical(pool.types[q], k) {
						everDeleted[q] = true
					}
				}
				model.keys = append(model.keys[:j], model.keys[j+1:]...)
				model.vals = append(model.vals[:j], model.vals[j+1:]...)
			}
		default:
			trace = append(trace, "Read")
		}
		if kind, d := checkAll(step); kind != "" {
			return fail(kind, d+"\ntrace: "+strings.Join(trace, " "))
		}
	}
	res.Count("operations", int64(nops))
	res.Count("observations", int64(nops*(np+3)))
	res.Count("set_on_identical_distinct_key", hitExisting)
	res.Count("reinserts_after_delete", reinserts)
	res.Count("deletes", deletes)

	// read-only concurrency (race detector): 4 goroutines × all read operations
	if m != nil {
		var wg sync.WaitGroup
		bad := make([]string, 4)
		for gi := 0; gi < 4; gi++ {
			wg.Add(1)
			go func(gi int) {
				defer wg.Done()
				for rep := 0; rep < 3; rep++ {
					for pi, p := range pool.types {
						got := m.At(p)
						j := model.find(p)
						if (j < 0 && got != nil) || (j >= 0 && got != model.vals[j]) {
							bad[gi] = fmt.Sprintf("concurrent At(%s)=%v", pool.descr[pi], got)
						}
					}
					if m.Len() != len(model.keys) || len(m.Keys()) != len(model.keys) {
						bad[gi] = "concurrent Len/Keys mismatch"
					}
					n := 0
					m.Iterate(func(types.Type, any) { n++ })
					if n != len(model.keys) {
						bad[gi] = "concurrent Iterate count mismatch"
					}
					_ = m.String()
					_ = m.KeysString()
				}
			}(gi)
		}
		wg.Wait()
		for _, b := range bad {
			if b != "" {
				return fail("concurrent-read", b)
			}
		}
		res.Count("concurrent_read_rounds", 12)
	}

	// production client: BuiltinTI lookups must respect identity (same answer for identical distinct objects)
	if i%8 == 0 {
		pkg := gogen.NewPackage("", "main", &gogen.Config{Fset: u.Fset, Importer: u})
		for a := 0; a < np; a++ {
			if skipBTI(pool.types[a]) {
				continue
			}
			ta := pkg.BuiltinTI(pool.types[a])
			for b := a + 1; b < np; b++ {
				if skipBTI(pool.types[b]) {
					continue
				}
				if types.Identical(pool.types[a], pool.types[b]) {
					if tb := pkg.BuiltinTI(pool.types[b]); (ta == nil) != (tb == nil) {
						return fail("builtinTI-identity", fmt.Sprintf("BuiltinTI differs for identical types %s / %s", pool.descr[a], pool.descr[b]))
					}
				}
			}
		}
		// the registered builtin types must be found through distinct identical objects
		for _, t := range []types.Type{types.NewSlice(types.Typ[types.Int]), types.NewMap(types.Typ[types.String], types.Typ[types.Int]), types.NewChan(types.SendRecv, types.Typ[types.Bool]), types.Typ[types.String], types.Typ[types.Int64]} {
			_ = pkg.BuiltinTI(t)
		}
		res.Count("builtinTI_lookups", int64(np))
	}
	res.NonTrivial = hitExisting > 0 && reinserts > 0
	hk := h.StrHash(strings.Join(trace, ","))
	res.Key = fmt.Sprintf("history seed=%d case=%d ops=%d pool=%d trace#%x", seed, i, nops, np, hk)
	res.Detail = fmt.Sprintf("pool %d types (%d identical-distinct pairs, %d colliding non-identical pairs); %d ops; first ops: %s", np, identPairs, collPairs, nops, strings.Join(trace[:min(12, len(trace))], " "))
	return []h.Result{res}
}
