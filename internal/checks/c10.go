package checks

import (
	"fmt"
	"go/ast"
	"regexp"
	"sort"
	"strconv"
	"strings"

	"github.com/goplus/gogen/verif/internal/drive"
	"github.com/goplus/gogen/verif/internal/gen"
	"github.com/goplus/gogen/verif/internal/h"
)

// C10 — missing-return and label diagnostics coincide with Go's rules (DESIGN.md §2 C10).

var reLabel = regexp.MustCompile(`label (\w+)`)

// classifyFlowDiag maps messages to the three diagnostic kinds of the property; anything else is reported as OTHER.
func classifyFlowDiag(msgs []string) (out []string, other []string) {
	for _, m := range msgs {
		switch {
		case strings.Contains(m, "missing return"):
			out = append(out, "missing-return")
		case strings.Contains(m, "label") && strings.Contains(m, "not used"):
			out = append(out, "unused-label "+reLabel.FindStringSubmatch(m)[1])
		case strings.Contains(m, "label") && strings.Contains(m, "already de"):
			out = append(out, "dup-label "+reLabel.FindStringSubmatch(m)[1])
		case ref_IsUnused(m), strings.HasPrefix(m, "\t"): // continuation lines ("\tother declaration of L")
		default:
			other = append(other, m)
		}
	}
	sort.Strings(out)
	return
}

var rePosPrefix = regexp.MustCompile(`^[^:]+:(\d+):(\d+): `)

type fnSpan struct{ l0, c0, l1, c1 int }
type fnSpans []fnSpan

// contains reports whether the innermost function containing (line, col) is one of the spans. Spans are innermost-first
// decided by the caller: only functions with duplicated labels are listed, together with their nested literals as holes.
func (s fnSpans) contains(line, col int) bool {
	best := -1
	for i, f := range allFnSpans {
		if (line > f.l0 || line == f.l0 && col >= f.c0) && (line < f.l1 || line == f.l1 && col <= f.c1) {
			if best < 0 || spanInside(f, allFnSpans[best]) {
				best = i
			}
		}
	}
	if best < 0 {
		return false
	}
	for _, d := range s {
		if d == allFnSpans[best] {
			return true
		}
	}
	return false
}

func spanInside(a, b fnSpan) bool {
	return (a.l0 > b.l0 || a.l0 == b.l0 && a.c0 >= b.c0) && (a.l1 < b.l1 || a.l1 == b.l1 && a.c1 <= b.c1)
}

// allFnSpans holds every function of the program under examination (one program per case, single goroutine).
var allFnSpans []fnSpan

func dupLabelFuncs(o *drive.Outcome) fnSpans {
	allFnSpans = nil
	var dups fnSpans
	if o.Src == nil || len(o.Src.Files) == 0 {
		return nil
	}
	fset := sharedUniverse().Fset
	span := func(n ast.Node) fnSpan {
		a, b := fset.Position(n.Pos()), fset.Position(n.End())
		return fnSpan{a.Line, a.Column, b.Line, b.Column}
	}
	var visitFn func(node ast.Node, body *ast.BlockStmt)
	visitFn = func(node ast.Node, body *ast.BlockStmt) {
		if body == nil {
			return
		}
		sp := span(node)
		allFnSpans = append(allFnSpans, sp)
		seen := map[string]int{}
		ast.Inspect(body, func(n ast.Node) bool {
			switch x := n.(type) {
			case *ast.FuncLit:
				visitFn(x, x.Body)
				return false
			case *ast.LabeledStmt:
				seen[x.Label.Name]++
			}
			return true
		})
		for _, c := range seen {
			if c > 1 {
				dups = append(dups, sp)
				break
			}
		}
	}
	for _, f := range o.Src.Files {
		for _, d := range f.Decls {
			if fd, ok := d.(*ast.FuncDecl); ok {
				visitFn(fd, fd.Body)
			}
		}
	}
	return dups
}

func ref_IsUnused(m string) bool {
	return strings.Contains(m, "declared and not used") || strings.Contains(m, "imported and not used")
}

func c10N(tier string) (enum, rnd int) {
	if tier == "thorough" {
		return 16 * 16 * 16 * 16 * 16, 60000 // all choice prefixes of length 5 (radix 16) + random deep bodies
	}
	return 1500, 2500
}

func c10Run(tier string, seed uint64, i int) []h.Result {
	enum, rnd := c10N(tier)
	var src, key string
	if i >= enum+rnd {
		src = gen.FlowTemplates()[i-enum-rnd]
		key = fmt.Sprintf("template body %d", i-enum-rnd)
	} else if i < enum {
		idx := uint64(i)
		if tier != "thorough" {
			idx = h.Mix(seed, 10, uint64(i)) % (16 * 16 * 16 * 16 * 16 * 16)
		}
		src = gen.FlowBody(gen.NewEnumChooser(idx), 3)
		key = fmt.Sprintf("enumerated body #%x", idx)
	} else {
		r := h.NewRand(seed, 1010, uint64(i))
		src = gen.FlowBody(r, 2+r.Intn(7))
		key = fmt.Sprintf("random body seed=%d case=%d", seed, i)
	}
	key += fmt.Sprintf(" #%x", h.StrHash(src))
	u := sharedUniverse()
	o := drive.Build(u, []string{src}, drive.Opt{NoCompare: true})
	r := h.Result{Key: key, Verdict: h.Held}
	if o.SrcParseErr != "" {
		r.Verdict, r.Kind, r.Detail = h.Skip, "generator-parse-error", o.SrcParseErr
		return []h.Result{r}
	}
	// functions (declarations and literals) that declare the same label twice: there the target of `break L` / `continue L`
	// is the front end's choice, and with it whether the function can fall off its end
	dupFn := dupLabelFuncs(o)
	notAttributable := 0
	var goMsgs []string
	for _, e := range o.Src.AllErrs {
		if strings.Contains(e.Msg, "missing return") && dupFn.contains(e.Fset.Position(e.Pos).Line, e.Fset.Position(e.Pos).Column) {
			notAttributable++
			continue
		}
		goMsgs = append(goMsgs, e.Msg)
	}
	want, other := classifyFlowDiag(goMsgs)
	if len(other) > 0 {
		r.Verdict, r.Kind, r.Detail = h.Skip, "body-has-another-error", other[0]
		return []h.Result{r}
	}
	switch o.Status {
	case "fe", "imbalance":
		r.Verdict, r.Kind, r.Detail = h.Skip, o.Status, o.Msg
		return []h.Result{r}
	case "crash":
		r.Verdict, r.Kind, r.Detail = h.Violated, "crash: "+o.CrashSig, o.Msg+"\n"+o.Stack
		r.Input = src
		return []h.Result{r}
	}
	msgs := append([]string{}, o.Handled...)
	if o.Status == "rejected" && len(o.Handled) == 0 {
		msgs = append(msgs, o.Msg)
	}
	if len(dupFn) > 0 {
		var kept []string
		for _, m := range msgs {
			if strings.Contains(m, "missing return") {
				if pm := rePosPrefix.FindStringSubmatch(m); pm != nil {
					ln, _ := strconv.Atoi(pm[1])
					col, _ := strconv.Atoi(pm[2])
					if dupFn.contains(ln, col) {
						continue
					}
				}
			}
			kept = append(kept, m)
		}
		msgs = kept
	}
	got, gother := classifyFlowDiag(msgs)
	// With a duplicated label name, which declaration a jump refers to is the FRONT END's choice (it hands Label objects to
	// Goto/Break/Continue), so "used" is not attributable to the builder for those names: unused-label entries of
	// duplicated names are left out on both sides; so are missing-return diagnostics of a function (declaration or literal)
	// that itself declares a label twice (whether it can fall off its end depends on which loop `break L` leaves).
	dups := map[string]bool{}
	for _, w := range append(append([]string{}, want...), got...) {
		if strings.HasPrefix(w, "dup-label ") {
			dups[strings.TrimPrefix(w, "dup-label ")] = true
		}
	}
	dropDupUnused := func(xs []string) []string {
		var out []string
		for _, x := range xs {
			if strings.HasPrefix(x, "unused-label ") && dups[strings.TrimPrefix(x, "unused-label ")] {
				continue
			}
			out = append(out, x)
		}
		return out
	}
	want, got = dropDupUnused(want), dropDupUnused(got)
	r.NonTrivial = true
	r.Count("bodies", 1)
	r.Count("missing_return_in_function_with_duplicated_label_not_compared", int64(notAttributable))
	r.Count("diagnostics_expected", int64(len(want)))
	for _, w := range want {
		r.Tag("diag:" + strings.Fields(w)[0])
	}
	if len(want) == 0 {
		r.Tag("diag:none")
	}
	switch {
	case len(gother) > 0:
		r.Verdict, r.Kind = h.Violated, "other-diagnostic"
		r.Detail = "builder reported " + gother[0] + " for a body whose only Go diagnostics are " + fmt.Sprint(want)
	case strings.Join(got, "|") != strings.Join(want, "|"):
		r.Verdict = h.Violated
		r.Kind = "diagnostics: builder=" + strings.Join(got, ",") + " go=" + strings.Join(want, ",")
		r.Detail = "HandleErr deliveries " + fmt.Sprint(got) + " differ from go/types " + fmt.Sprint(want)
	default:
		r.Detail = "diagnostics agree: " + fmt.Sprint(want)
	}
	if r.Verdict == h.Violated || verbose() {
		r.Input = src
	}
	return []h.Result{r}
}

func init() {
	h.Register(&h.Check{
		ID: "C10", Level: "exploration",
		Rule: "function bodies over nested if/else-if/else, for (no condition, condition, range-over-int, 3-clause without condition, range), switch (tagged/tagless, default first/last/absent, fallthrough), type switch (with/without binding), select (recv/send/default/empty), " +
			"blocks, labeled statements (loops, switches, selects, blocks, simple statements; deliberately duplicated names), break/continue/goto with and without labels to every enclosing level, panic (builtin, or shadowed by a package function, a parameter, or a local), " +
			"empty statements, closures with their own label namespace and result list. Bodies come from (a) systematic enumeration of the generator's choice sequences (thorough: every choice prefix of length 5 in radix 16 = 1 048 576 indices; quick: seed-sampled indices) " +
			"(b) random bodies to nesting depth 8 and (c) a deterministic catalogue, complete in both tiers: 9 outer statements (labeled / unlabeled for, switch, type switch, select, block as the function's last statement) x 10 nested statements x 8 jumps (break, break L, continue, continue L, goto L, return, panic, none) x 4 further uses of the label. The multiset of {missing return, label defined and not used, label already defined} delivered to HandleErr must equal go/types' on the same source. non-trivial = body compared; distinct by body text",
		Assume: []string{"go/types implements the terminating-statement and label rules of the Go specification", "bodies contain no other error source (those that do are skipped)"},
		MinNT:  200,
		Plan: func(tier string, seed uint64) int {
			a, b := c10N(tier)
			return a + b + len(gen.FlowTemplates())
		},
		Run: c10Run,
	})
}
