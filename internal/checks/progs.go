package checks

import (
	"fmt"
	"strings"

	"github.com/goplus/gogen/verif/internal/drive"
	"github.com/goplus/gogen/verif/internal/gen"
	"github.com/goplus/gogen/verif/internal/h"
)

// Program layer shared by C01/C02/C03/C04/C16/C17: generated programs, corpus programs, programs with an injected fault.

type progSpec struct {
	kind  string // gen | corpus | fault | multi
	src   []string
	names []string
	key   string
	fault string
}

func progSizes(r *h.Rand, deep bool) (nf, depth, stmts int) {
	nf = 1 + r.Intn(4)
	depth = 3
	stmts = 40
	if deep {
		depth = 8
		stmts = 120
	}
	return
}

func mkProg(check string, seed uint64, i int, withFault bool, deep bool) progSpec {
	r := h.NewRand(seed, h.StrHash("prog"), uint64(i))
	nf, depth, stmts := progSizes(r, deep)
	if withFault {
		fr := h.NewRand(seed, h.StrHash("fault"), uint64(i))
		src, fault := gen.ProgramWithFault(r, nf, depth, stmts, fr)
		return progSpec{kind: "fault", src: []string{src}, key: fmt.Sprintf("generated program seed=%d case=%d with fault %q #%x", seed, i, fault, h.StrHash(src)), fault: fault}
	}
	src := gen.Program(r, nf, depth, stmts)
	return progSpec{kind: "gen", src: []string{src}, key: fmt.Sprintf("generated program seed=%d case=%d #%x", seed, i, h.StrHash(src))}
}

// splitFiles distributes the top-level function declarations of a generated program over 2-3 files.
func splitFiles(src string, r *h.Rand) ([]string, []string) {
	idx := strings.Index(src, "\nfunc f0(")
	if idx < 0 {
		idx = strings.Index(src, "\nfunc main()")
	}
	if idx < 0 {
		return []string{src}, []string{""}
	}
	head, rest := src[:idx+1], src[idx+1:]
	parts := strings.Split(rest, "\n}\n")
	n := 2 + r.Intn(2)
	files := make([]string, n)
	files[0] = head
	hdr := "package main\n\nimport (\n\t\"errors\"\n\t\"fmt\"\n\t\"strings\"\n)\n\nvar _ = errors.New\nvar _ = fmt.Sprint\nvar _ = strings.ToUpper\n\n"
	for k := 1; k < n; k++ {
		files[k] = hdr
	}
	for _, p := range parts {
		if strings.TrimSpace(p) == "" {
			continue
		}
		k := r.Intn(n)
		files[k] += p + "\n}\n"
	}
	names := []string{"a.go", "b.go", "c.go"}[:n]
	return files, names
}

func runProg(p progSpec, opt drive.Opt) *drive.Outcome {
	opt.FileNames = p.names
	return drive.Build(sharedUniverse(), p.src, opt)
}

func progResultExtras(r *h.Result, p progSpec, o *drive.Outcome) {
	r.Tag("kind:" + p.kind)
	r.Count("max_stack_depth_seen", 0)
	if r.Verdict == h.Violated || verbose() {
		r.Input = strings.Join(p.src, "\n// ---- next file ----\n")
	}
	if verbose() {
		r.Detail += "\n" + o.Summary()
	}
}
