package checks

import (
	"fmt"
	"sort"
	"strings"

	"github.com/goplus/gogen/verif/internal/ref"

	"github.com/goplus/gogen/verif/internal/drive"
	"github.com/goplus/gogen/verif/internal/h"
)

// C07 — generic inference and instantiation agree with the Go type checker (DESIGN.md §2 C07).

const c07Env = `package main

import (
	"fmt"
	"strconv"
)

type MyInt int
type MyF float64
type MySlice []int
type MyMap map[string]int
type Box[T any] struct{ V T }
type List[T any] []T
type Pairs[K comparable, V any] map[K]V
type Num interface{ ~int | ~float64 }

func (m MyInt) String() string { return "" }

func Id[T any](x T) T                                 { return x }
func Pair[K comparable, V any](k K, v V) map[K]V      { return nil }
func Sum[T int | float64](xs ...T) (r T)              { return }
func Map[T, U any](xs []T, f func(T) U) []U           { return nil }
func Apply[T any](f func(T) T, x T) T                 { return x }
func Ptr[T any](p *T) (r T)                           { return }
func Key[M ~map[K]V, K comparable, V any](m M) []K    { return nil }
func NumF[T Num](x T) T                               { return x }
func Two[T any](a, b T) T                             { return a }
func Conv[T, U any](x T) (r U)                        { return }
func Zero[T any]() (r T)                              { return }
func Str[T fmt.Stringer](x T) string                  { return "" }
func First[S ~[]E, E any](s S) (r E)                  { return }
func Var[T any](a T, b ...T) T                        { return a }
func Cmp[T comparable](a, b T) bool                   { return false }
func Fn[T any](f func(T))                             {}
func Ch[T any](c chan T) (r T)                        { return }
func Sl[T any](s []T) int                             { return 0 }
func Nested[T any](x map[string][]*T) (r T)           { return }

var (
	b    bool
	i    int
	i8   int8
	u    uint
	f64  float64
	s    string
	mi   MyInt
	mf   MyF
	p    *int
	ps   *string
	sl   []int
	ss   []string
	msl  MySlice
	m    map[string]int
	mm   MyMap
	ch   chan int
	e    error
	a    any
	fi   func(int) int
	fs   func(string) string
	fv   func(int)
	bx   Box[int]
	nm   map[string][]*int
)

var _ = strconv.Itoa
var _ fmt.Stringer
`

var c07One = []string{"1", "-1", "2.5", `"s"`, "'a'", "true", "nil", "1i", "1 << 70", "b", "i", "i8", "u", "f64", "s", "mi", "mf", "p", "ps", "sl", "ss", "msl", "m", "mm", "ch", "e", "a", "fi", "fs", "fv", "bx",
	"nm", "Id", "Zero", "strconv.Itoa", "func(x int) int { return x }", "func(string) {}", "[]int{1}", "map[string]int{}", "&i", "Box[string]{}", "List[int]{1}", "MyInt(1)", "int8(1)", "Id[int]", "Id(1)", "Zero[int]()"}

var c07Small = []string{"1", "2.5", `"s"`, "'a'", "nil", "i", "i8", "f64", "s", "mi", "mf", "sl", "ss", "p", "a", "e", "fi", "Id", "func(x int) int { return x }", "strconv.Itoa", "1 << 70", "MyInt(1)"}

func c07Atoms() []string {
	var out []string
	add := func(s string) { out = append(out, s) }
	for _, f := range []string{"Id", "Sum", "Ptr", "Key", "NumF", "Str", "First", "Var", "Fn", "Ch", "Sl", "Nested", "Zero", "Conv", "Cmp", "Two"} {
		for _, x := range c07One {
			add("_ = " + f + "(" + x + ")")
		}
		add("_ = " + f + "()")
		add("x := " + f + "; _ = x")
		add("_ = " + f + "[int]")
		add("_ = " + f + "[int](i)")
		add("_ = " + f + "[string](i)")
		add("_ = " + f + "[int, string]")
		add("_ = " + f + "[int, string, bool]")
		add("_ = " + f + "[]")
		add("var g func(int) int = " + f + "; _ = g")
		add("var g func(int) = " + f + "; _ = g")
		add("fi = " + f)
	}
	for _, f := range []string{"Pair", "Two", "Cmp", "Apply", "Map", "Var", "Sum"} {
		for _, x := range c07Small {
			for _, y := range c07Small {
				add("_ = " + f + "(" + x + ", " + y + ")")
			}
		}
	}
	for _, x := range c07Small {
		add("_ = Sum(1, " + x + ", 2.5)")
		add("_ = Var(i, " + x + ", 1)")
		add("_ = Var(" + x + ", 1, 2.5)")
		add("_ = Sum(sl...)")
		add("_ = Var(1, sl...)")
		add("_ = Map(sl, func(x int) string { return \"\" })[0] + " + x)
		add("_ = Box[int]{" + x + "}")
		add("_ = Box[string]{V: " + x + "}")
		add("_ = List[float64]{" + x + "}")
		add("_ = Pairs[string, int]{\"k\": " + x + "}")
		add("_ = Conv[int, string](" + x + ")")
		add("_ = Conv[int](" + x + ")")
		add("_ = Pair[string](\"k\", " + x + ")")
		add("_ = Pair[string, int](\"k\", " + x + ")")
		add("_ = Id[any](" + x + ")")
		add("_ = Id[MyInt](" + x + ")")
		add("_ = NumF[MyF](" + x + ")")
		add("_ = Apply(Id, " + x + ")")
		add("_ = Apply(Id[int], " + x + ")")
		add("_ = Map(sl, Id)")
		add("_ = Map(ss, strconv.Itoa)")
		add("_ = Map(sl, strconv.Itoa)")
	}
	for _, s := range []string{"_ = Box[int]{}", "_ = Box[]{}", "_ = Box{}", "_ = Box[int, string]{}", "var v Box[Box[int]]; _ = v.V.V", "var v Pairs[[]int, int]; _ = v", "var v Pairs[string]; _ = v", "_ = List[int]{1, 2}[0]",
		"_ = Pairs[MyInt, Box[string]]{1: {V: \"a\"}}", "type C[T Num] struct{ v T }; _ = C[string]{}", "type C[T Num] struct{ v T }; _ = C[MyF]{v: 1.5}",
		"type C[T comparable] struct{}; _ = C[[]int]{}", "type C[T comparable] struct{}; _ = C[any]{}", "type C[T interface{ String() string }] struct{}; _ = C[MyInt]{}", "type C[T interface{ String() string }] struct{}; _ = C[int]{}",
		"_ = Zero[int]()", "_ = Zero[[]Box[int]]()", "var z int = Zero(); _ = z", "var z = Zero[int]; _ = z()", "_ = Id(Id)(1)", "_ = Id(Id[int])(1)", "_ = Id[func(int) int](Id)", "_ = Key(mm)", "_ = Key(m)", "_ = Key[MyMap](mm)", "_ = Key[MyMap, string](mm)",
		"_ = Key[MyMap, int](mm)", "_ = First(msl)", "_ = First(ss) + s", "_ = First[MySlice](msl) + 1", "_ = First[[]int, string](sl)", "_ = Ptr(p) + 1", "_ = Ptr(ps) + 1", "_ = Ptr(&mi) + mi", "_ = Nested(nm) + 1", "_ = Ch(ch) + 1", "_ = Ch(make(chan string)) + s",
		"_ = Str(mi)", "_ = Str(i)", "_ = Str[MyInt](1)", "_ = Cmp(sl, sl)", "_ = Cmp(a, a)", "_ = Cmp(1, 2.5)", "_ = Cmp(i, 2.5)", "_ = Cmp(1, i8)", "_ = Two(1, 2.5) + 0.5", "_ = Two(1, 'a')", "_ = Two('a', 1)", "_ = Two(2.5, 1i)", "_ = Two(i8, 1) + i8",
		"_ = Two(i8, 300)", "_ = Two(1, nil)", "_ = Two(p, nil)", "_ = Two(nil, p)", "_ = Two(nil, nil)", "_ = Sum(1, 2) + i", "_ = Sum(1, 2.5) + f64", "_ = Sum(i, 2.5)", "_ = Sum[float64](1, 2) + f64", "_ = Sum(mi)", "_ = Sum()", "_ = Sum[int]()",
		"_ = NumF(mi) + mi", "_ = NumF(1) + i", "_ = NumF(2.5) + f64", "_ = NumF(s)", "_ = NumF(u)", "Fn(fv)", "Fn(func(x string) {})", "Fn(fi)", "Fn(Id)", "Fn[int](func(int) {})", "Fn[int](fs)",
		"_ = Map(sl, func(x int) float64 { return 0 })[0] + 0.5", "_ = Map[int](sl, func(x int) string { return \"\" })[0] + s", "_ = Map[int, string](sl, nil)", "_ = Map(nil, fi)", "_ = Map([]int8{}, fi)",
		"_ = Apply(fi, 1) + i", "_ = Apply(fi, 2.5)", "_ = Apply(fs, \"x\") + s", "_ = Apply(fi, i8)", "_ = Apply(func(x MyInt) MyInt { return x }, 1) + mi", "go Id(1)", "defer Id(s)", "go Zero[int]()", "defer Zero()",
		"var f = Id[int]; _ = f(1) + i", "var f func(string) string = Id; _ = f", "var f func(string) int = Id; _ = f", "fs = Id", "fi = Two", "fv = Fn", "x := Id[int]; fi = x", "_ = []func(int) int{Id, Id[int]}", "_ = map[string]func(int) int{\"a\": Id}",
		"_ = struct{ F func(int) int }{F: Id}", "return", "_ = Pair(1, 2)[1] + 1", "_ = Pair(s, sl)[s][0]", "_ = Pair(sl, 1)", "_ = Pair(a, 1)", "_ = Pair(f64, Id)", "_ = len(Pair(\"a\", 'b'))"} {
		add(s)
	}
	// operations on values of type-parameter type inside generic bodies (declaration-level atoms)
	for _, d := range []string{
		"func G[T fmt.Stringer](x T) string { return x.String() }", "func G[T any](x T) T { return x }", "func G[T any](x T) T { var z T; return z }", "func G[T any](x T) any { return x }",
		"func G[T comparable](a, b T) bool { return a == b }", "func G[T any](a, b T) bool { return a == b }", "func G[T int | float64](a, b T) T { return a + b }", "func G[T any](a, b T) T { return a + b }",
		"func G[T ~int](a T) int { return int(a) }", "func G[T ~string](a T) int { return len(a) }", "func G[T any](s []T) T { return s[0] }", "func G[S ~[]E, E any](s S) E { return s[0] }", "func G[S ~[]E, E any](s S) int { return len(s) }",
		"func G[S ~[]E, E any](s S) S { return append(s, s[0]) }", "func G[M ~map[K]V, K comparable, V any](m M, k K) V { return m[k] }", "func G[T any](p *T) T { return *p }", "func G[T any](c chan T) T { return <-c }",
		"func G[T any](x T) *T { return &x }", "func G[T any](x T) []T { return []T{x} }", "func G[T any](x T) map[string]T { return map[string]T{\"a\": x} }", "func G[T any](x T) Box[T] { return Box[T]{V: x} }",
		"func G[T any](x T) T { return Id(x) }", "func G[T any](x T) T { return Id[T](x) }", "func G[T Num](x T) T { return NumF(x) }", "func G[T any](x T) T { return NumF(x) }", "func G[T any](x any) T { return x.(T) }",
		"func G[T any](x any) bool { _, ok := x.(T); return ok }", "func G[T any](x T) { switch any(x).(type) { case int: } }", "func G[T int | string](x T) T { return x + x }", "func G[T ~int | ~float64](x T) T { return x * 2 }",
		"func G[T ~int](x T) T { return x << 1 }", "func G[T ~float64](x T) T { return x << 1 }", "func G[T any](f func(T) T, x T) T { return f(x) }", "func G[T any](xs ...T) int { return len(xs) }", "func G[T any](x T) T { for range 3 { }; return x }",
		"func G[T interface{ ~[]int }](x T) int { return x[0] }", "func G[T interface{ ~[]int | ~[]string }](x T) int { return len(x) }", "func G[T *int | *string](x T) { }", "func G[T any, PT interface{ *T }](x PT) T { return *x }",
		"func G[T any](x T) T { var y T = x; return y }", "func G[T any](x T) T { y := x; return y }", "func G[K comparable, V any](m map[K]V) []K { var r []K; for k := range m { r = append(r, k) }; return r }",
	} {
		add("DECL " + d)
	}
	return dedupStrings(out)
}

func dedupStrings(in []string) []string {
	seen := map[string]bool{}
	var out []string
	for _, s := range in {
		if !seen[s] {
			seen[s] = true
			out = append(out, s)
		}
	}
	return out
}

var c07All []string

func c07List() []string {
	if c07All == nil {
		c07All = c07Atoms()
	}
	return c07All
}

func judgeC07(key string, o *drive.Outcome) h.Result {
	r := baseResult(key, o)
	if skipFE(&r, o) {
		return r
	}
	r.NonTrivial = true
	r.Count("generic_uses", 1)
	accepted := o.Status == "accepted"
	switch {
	case o.Status == "crash":
		r.Verdict, r.Kind, r.Detail = h.Violated, "crash: "+o.CrashSig, o.Msg+"\n"+o.Stack
	case o.SrcValid && !accepted:
		r.Verdict, r.Kind = h.Violated, "rejected-valid-generic-use"
		r.Detail = "go/types accepts; builder reports: " + o.Msg
	case !o.SrcValid && accepted && len(o.OutErrs) > 0:
		r.Verdict, r.Kind = h.Violated, "accepted-invalid-generic-use"
		r.Detail = "go/types rejects (" + firstN(o.SrcErrs, 1) + "); builder accepted and emitted:\n" + atomFunc(o.Output()) + "\noutput errors: " + firstN(o.OutErrs, 1)
	case !o.SrcValid && accepted:
		r.Count("accepted_via_extension", 1)
		r.Detail = "not Go, but the lowered output type-checks: " + atomFunc(o.Output())
	case accepted && len(o.OutErrs) > 0:
		r.Verdict, r.Kind = h.Violated, "valid-use-emitted-ill-typed"
		r.Detail = firstN(o.OutErrs, 2) + "\n" + atomFunc(o.Output())
	case accepted && len(o.DumpDiffs) > 0:
		// The builder may spell out an instantiation Go infers (Apply(Id, s) -> Apply(Id[string], s)). That is the same
		// program as far as this property goes iff the type arguments of every instantiated identifier are identical.
		if a, b := instanceList(o.Src), instanceList(o.Out); a == b {
			r.Count("explicit_instantiation_with_identical_type_arguments", 1)
			r.Detail = "instantiation made explicit with the type arguments go/types infers: " + b
			break
		} else {
			r.Verdict, r.Kind = h.Violated, fmt.Sprintf("instantiation-differs#%08x", uint32(h.StrHash(b)))
			r.Detail = "type arguments differ:\n  source (go/types): " + a + "\n  output:            " + b + "\n" + atomFunc(o.Output())
		}
	case accepted && len(o.TypeDiffs) > 0:
		r.Verdict, r.Kind = h.Violated, "instantiated-type: "+diffStr(o.TypeDiffs[0])
		r.Detail = "reported type differs from go/types' instantiation: " + diffStr(o.TypeDiffs[0])
	case accepted:
		r.Count("accepted_and_types_equal", 1)
		r.Count("type_comparisons", int64(o.NCmpType))
	default:
		r.Count("both_reject", 1)
	}
	return r
}

// instanceList renders Info.Instances in a canonical order: name[targs] per instantiated identifier use
// (type arguments printed with aliases resolved, so that any and interface{} coincide).
func instanceList(c *ref.Checked) string {
	var items []string
	for id, inst := range c.Info.Instances {
		var ts []string
		for i := 0; i < inst.TypeArgs.Len(); i++ {
			ts = append(ts, strings.ReplaceAll(drive.TypeStr(inst.TypeArgs.At(i)), "interface{}", "any"))
		}
		items = append(items, id.Name+"["+strings.Join(ts, ",")+"]")
	}
	sort.Strings(items)
	return strings.Join(items, " ")
}

func atomFunc(out string) string {
	if i := strings.Index(out, "func atom()"); i >= 0 {
		s := out[i:]
		if j := strings.Index(s, "\n}\n"); j >= 0 {
			s = s[:j+2]
		}
		return s
	}
	return ""
}

func init() {
	h.Register(&h.Check{
		ID: "C07", Level: "exploration",
		Rule: "complete catalogue (both tiers) of uses of 19 generic functions (1-3 type parameters; any / comparable / union / ~T / method constraints; type parameters inside slices, maps, pointers, channels, funcs, nested containers; variadic; " +
			"core-type constraints ~[]E and ~map[K]V; un-inferable result-only parameters) and 3 generic types: every function x 47 operands, 7 two-parameter functions x 22 x 22 operand pairs, explicit / partial / over-long / empty index lists, " +
			"generic function values assigned or passed where a function type is expected (deferred inference), instantiated values, generic types with good and bad type arguments, constraint violations, go/defer. Each use is a one-statement program driven through the front end. " +
			"Oracle: accept/reject equals go/types' verdict on the same source; accepted output type-checks; canonical dump equal (explicit index lists preserved); every reported sub-expression type (instantiated signatures, results) identical to go/types'. " +
			"TYPE-AS-PARAMETER calls (API-driven, complete in both tiers): 12 XGox_ functions (1-2 leading explicit type parameters, 1-3 inferred trailing ones, comparable / ~int|~float64 / ~string constraints, function-typed and result-only parameters) x leading types x all argument tuples over 15 operands, also with too few / too many leading types; reference = go/types on the partial instantiation XGox_F[T...](args...): accept/reject equal, the type arguments WRITTEN OUT in the emitted call identical to those Go infers, reported result type identical. " +
			"non-trivial = use decided; distinct by statement text",
		Assume: []string{"go/types inference (the running toolchain) is the reference", "methods on generic receiver types cannot be driven faithfully through the builder API and are not generated"},
		MinNT:  1000,
		Plan:   func(tier string, seed uint64) int { return len(c07List()) + len(c07xCalls()) },
		Run: func(tier string, seed uint64, i int) []h.Result {
			if i >= len(c07List()) {
				return c07xRun(i - len(c07List()))
			}
			stmt := c07List()[i]
			src := c07Env + "\nfunc atom() {\n\t" + stmt + "\n}\n"
			if strings.HasPrefix(stmt, "DECL ") {
				src = c07Env + "\n" + strings.TrimPrefix(stmt, "DECL ") + "\n\nfunc atom() {\n}\n"
			}
			o := drive.Build(sharedUniverse(), []string{src}, drive.Opt{})
			r := judgeC07("generic: "+stmt, o)
			if verbose() || r.Verdict == h.Violated {
				r.Input = src
			}
			return []h.Result{r}
		},
		Exhaustive: func(string) bool { return true },
	})
}

// C07Atom returns the i-th catalogue statement (debugging aid).
func C07Atom(i int) string { return c07List()[i] }
