package checks

import (
	"fmt"

	"github.com/goplus/gogen/verif/internal/drive"
	"github.com/goplus/gogen/verif/internal/h"
)

// C16 — builder state is balanced across every construct (DESIGN.md §2 C16).
// The monitor lives in internal/fe: every operation is checked against its documented arity, every completed
// statement/expression against the stack base, scope, current function and vblock flag, every closed function or
// closure against the label context that was visible when it was opened.

func c16N(tier string) int {
	if tier == "thorough" {
		return 30000
	}
	return 900
}

func judgeC16(key string, o *drive.Outcome) h.Result {
	r := baseResult(key, o)
	if o.Status == "fe" {
		r.Verdict, r.Kind, r.Detail = h.Skip, "front-end", o.Msg
		return r
	}
	r.NonTrivial = o.Ops > 20
	r.Count("operations_asserted", int64(o.Ops))
	r.Count("errors_recovered_at_statement_level", int64(len(o.Reported)))
	if o.MaxDepth > 0 {
		r.Tag(fmt.Sprintf("maxstack:%d", o.MaxDepth))
	}
	switch o.Status {
	case "imbalance":
		r.Verdict, r.Kind, r.Detail = h.Violated, "imbalance", o.Msg
	case "crash":
		r.Verdict, r.Kind = h.Skip, "crash(see C17)"
	default:
		r.Detail = fmt.Sprintf("%d operations, every arity/base/scope/function/label assertion held; status %s", o.Ops, o.Status)
	}
	return r
}

func c16Run(tier string, seed uint64, i int) []h.Result {
	if k := i - c16N(tier); k >= 0 {
		return c16InlineRun(k)
	}
	nc := len(Corpus())
	var p progSpec
	opt := drive.Opt{NoCompare: true}
	switch {
	case i < nc:
		c := Corpus()[i]
		p = progSpec{kind: "corpus", src: []string{c.Src}, key: "corpus " + c.Name}
	case i%3 == 0: // deep valid program
		p = mkProg("C16", seed, i, false, true)
	case i%3 == 1: // fault + statement-level recovery: the laws must hold for everything after the reported error
		p = mkProg("C16", seed, i, true, i%2 == 0)
		p.kind = "fault+recover"
		opt.Recover = true
	default:
		p = mkProg("C16", seed, i, false, true)
		p.src, p.names = splitFiles(p.src[0], h.NewRand(seed, 7, uint64(i)))
		p.kind = "multi"
		p.key = fmt.Sprintf("generated multi-file program seed=%d case=%d (%d files)", seed, i, len(p.src))
	}
	o := runProg(p, opt)
	r := judgeC16(p.key, o)
	progResultExtras(&r, p, o)
	return []h.Result{r}
}

func init() {
	h.Register(&h.Check{
		ID: "C16", Level: "exploration",
		Rule: "online assertions after EVERY builder operation of front-end driven builds: operand stack delta = documented arity of the operation; after each completed statement the stack is at the enclosing block's base and Scope()/Func()/InVBlock() " +
			"equal the snapshot taken before it; after each expression exactly one operand more; after each function body and closure the scope, current function and the visible label set (LookupLabel of every label name of the function and its " +
			"enclosing function) are those seen when it was opened. Workload: generated programs nested to depth 8 over all block-forming constructs (func, closure, block, if/else-if, for, range, switch/case/fallthrough, type switch, select, labels, " +
			"initialisers, const blocks), multi-file splits (file switches between declarations), the corpus, and programs with one ill-typed statement where the front end recovers at statement level (ResetInit inside an initialiser, ResetStmt otherwise) " +
			"and the laws must hold for everything after. INLINE CLOSURE CALLS (API-driven, complete in both tiers): arity 0-3 and variadic x 0-3 pending operands of an enclosing call below the arguments x 0-2 results x nesting in 0-3 blocks (if, for, case clause): stack depth after End() = base + pending + results, scope / function / vblock unchanged, stack at base after the enclosing statement, output type-checks. non-trivial = more than 20 operations asserted; distinct by program text",
		Assume: []string{"the arity table in internal/fe is written from the API documentation and validated on the repository's own corpus", "InternalStack/Scope/Func/InVBlock/LookupLabel are the public observation points"},
		MinNT:  50, Plan: func(tier string, seed uint64) int { return c16N(tier) + len(c16InlineCases()) }, Run: c16Run,
	})
}
