package checks

import (
	"fmt"
	"go/ast"
	"go/constant"
	"go/parser"
	"go/token"
	"go/types"
	"regexp"
	"runtime"
	"strings"

	"github.com/goplus/gogen"
	"github.com/goplus/gogen/verif/internal/drive"
	"github.com/goplus/gogen/verif/internal/fe"
	"github.com/goplus/gogen/verif/internal/gen"
	"github.com/goplus/gogen/verif/internal/h"
	"github.com/goplus/gogen/verif/internal/ref"
)

// C14 — synthesised zero values are the zero value of exactly the requested type (DESIGN.md §2 C14).
// The scenarios are built directly through the builder API on top of a front-end compiled prelude.

var c14Variants = []string{"var-init", "define", "conversion T()", "ReturnErr padding", "omitted optional argument"}

func c14N(tier string) int {
	if tier == "thorough" {
		return 6000
	}
	return 500
}

// c14Build builds one package for (type text, variant) and returns the outcome plus the type the builder reported.
// lazy: the zero value is requested for `type Lz <typeText>` declared with NewType but whose body is supplied only when
// Config.LoadNamed asks for it (how a front end handles a type used before its declaration is compiled).
func c14Build(u *ref.Universe, typeText string, variant int, lazy bool) (o *drive.Outcome, reported types.Type, target types.Type) {
	src := "package main\n" + gen.TypeImports + gen.TypePrelude + gen.TypeUses + "\nvar gerr error\nvar v " + typeText + "\n"
	o = &drive.Outcome{OpKinds: map[string]int{}}
	f, err := parser.ParseFile(u.Fset, "c14.go", src, parser.SkipObjectResolution)
	if err != nil {
		o.Status, o.Msg = "fe", err.Error()
		return
	}
	srcCk := &ref.Checked{Info: ref.NewInfo(), Files: []*ast.File{f}}
	u.CheckFiles("main", srcCk)
	o.Src, o.SrcErrs, o.SrcValid = srcCk, srcCk.Errs, len(srcCk.Errs) == 0
	if !o.SrcValid {
		o.Status = "fe"
		o.Msg = "generated type invalid: " + firstN(o.SrcErrs, 1)
		return
	}
	var lzDecl *gogen.TypeDecl
	var lzUnder types.Type
	opt := drive.Opt{}
	if lazy {
		opt.LoadNamed = func(at *gogen.Package, typ *types.Named) {
			if lzDecl != nil && typ == lzDecl.Type() && !lzDecl.Inited() && lzUnder != nil {
				lzDecl.InitType(at, lzUnder)
			}
		}
	}
	pkg := drive.NewPackage(u, "main", opt, o)
	func() {
		defer func() {
			if e := recover(); e != nil {
				buf := make([]byte, 1<<14)
				n := runtime.Stack(buf, false)
				o.Stack = string(buf[:n])
				o.Status, o.Msg, o.CrashSig = drive.Classify(e, o.Stack)
			}
		}()
		c := &fe.Compiler{Pkg: pkg}
		c.CompileFile(f)
		T := pkg.Types.Scope().Lookup("v").Type()
		if lazy {
			lzUnder = T
			lzDecl = pkg.NewTypeDefs().NewType("Lz")
			T = lzDecl.Type()
			defer func() {
				if !lzDecl.Inited() { // nobody needed the body: the front end supplies it at the end
					lzDecl.InitType(pkg, lzUnder)
				}
			}()
		}
		target = T
		cb := pkg.CB()
		switch variant {
		case 0:
			pkg.NewFunc(nil, "zeros", nil, nil, false).BodyStart(pkg)
			cb.NewVarStart(T, "z").ZeroLit(T)
			reported = cb.Get(-1).Type
			cb.EndInit(1).End()
		case 1:
			pkg.NewFunc(nil, "zeros", nil, nil, false).BodyStart(pkg)
			cb.DefineVarStart(token.NoPos, "y").ZeroLit(T)
			reported = cb.Get(-1).Type
			cb.EndInit(1).End()
		case 2:
			pkg.NewFunc(nil, "zeros", nil, nil, false).BodyStart(pkg)
			cb.DefineVarStart(token.NoPos, "y").Typ(T).Call(0)
			reported = cb.Get(-1).Type
			cb.EndInit(1).End()
		case 3:
			results := types.NewTuple(pkg.NewParam(token.NoPos, "", T, false), pkg.NewParam(token.NoPos, "", gogen.TyError, false))
			pkg.NewFunc(nil, "retErr", nil, results, false).BodyStart(pkg).
				Val(pkg.Types.Scope().Lookup("gerr")).ReturnErr(false).End()
			reported = T
		case 4:
			params := types.NewTuple(pkg.NewParam(token.NoPos, "a", types.Typ[types.Int], false), pkg.NewParam(token.NoPos, "b", T, true))
			fn := pkg.NewFunc(nil, "opt", params, nil, false)
			fn.BodyStart(pkg).End()
			pkg.NewFunc(nil, "caller", nil, nil, false).BodyStart(pkg).
				Val(fn.Func).Val(1).Call(1).EndStmt().End()
			reported = T
		}
		o.Status = "accepted"
	}()
	if o.Status == "accepted" {
		if len(o.Handled) > 0 {
			o.Status, o.Msg = "rejected", o.Handled[0]
		} else {
			o.Write(u, pkg, "main")
		}
	}
	return
}

func c14Run(tier string, seed uint64, i int) []h.Result {
	r := h.NewRand(seed, 14, uint64(i))
	g := &gen.TypeGen{R: r}
	depth := r.Intn(4)
	typeText := g.Type(depth)
	u := sharedUniverse()
	var out []h.Result
	for vv := 0; vv < 2*len(c14Variants); vv++ {
		v, lazy := vv%len(c14Variants), vv >= len(c14Variants)
		vn := c14Variants[v]
		if lazy {
			if _, isIface := sharedTypeIsInterface(u, typeText); isIface {
				continue // `type Lz <interface>`: same path as the eager case
			}
			vn = "lazily declared type: " + vn
		}
		res := h.Result{Key: "zero[" + vn + "] of " + typeText, Verdict: h.Held}
		o, reported, T := c14Build(u, typeText, v, lazy)
		switch o.Status {
		case "fe", "imbalance":
			res.Verdict, res.Kind, res.Detail = h.Skip, o.Status, o.Msg
			out = append(out, res)
			continue
		case "crash":
			res.Verdict, res.Kind, res.Detail, res.NonTrivial = h.Violated, "crash: "+o.CrashSig, o.Msg+"\n"+o.Stack, true
			out = append(out, res)
			continue
		case "rejected", "write-error":
			res.Verdict, res.Kind, res.Detail, res.NonTrivial = h.Violated, "zero-value-rejected-by-builder", o.Msg, true
			out = append(out, res)
			continue
		}
		res.NonTrivial = true
		res.Count("zero_values_checked", 1)
		res.Tag("variant:" + vn)
		switch {
		case len(o.OutErrs) > 0:
			res.Verdict, res.Kind = h.Violated, "zero-value-rejected-by-go"
			res.Detail = firstN(o.OutErrs, 2) + "\n" + zerosFunc(o.Output())
		case reported != nil && !types.Identical(reported, T):
			res.Verdict, res.Kind = h.Violated, "reported-type: "+drive.TypeStr(reported)
			res.Detail = "builder reports " + drive.TypeStr(reported) + " for the zero value of " + drive.TypeStr(T) + "\n" + zerosFunc(o.Output())
		case v == 1 || v == 2:
			// type of y in the output must be T
			var yt types.Type
			for id, ob := range o.Out.Info.Defs {
				if id.Name == "y" && ob != nil {
					yt = ob.Type()
				}
			}
			want := o.Out.Pkg.Scope().Lookup("v").Type()
			if lazy {
				want = o.Out.Pkg.Scope().Lookup("Lz").Type()
			}
			if yt == nil || !types.Identical(yt, want) {
				res.Verdict, res.Kind = h.Violated, "inferred-type: "+drive.TypeStr(yt)
				res.Detail = "`y := <zero>` gives y the type " + drive.TypeStr(yt) + ", requested " + drive.TypeStr(want) + "\n" + zerosFunc(o.Output())
			}
		}
		if res.Verdict == h.Held {
			// shape: the zero value of a nil-able type is nil (possibly converted), never an empty literal — which type-checks
			// but is a non-nil empty slice / map
			if d := c14Shape(o, v, T); d != "" {
				res.Verdict, res.Kind, res.Detail = h.Violated, "not-the-zero-value", d+"\n"+zerosFunc(o.Output())
			}
		}
		if res.Verdict == h.Violated && (v == 1 || v == 2) {
			// recorded finding KF-C14-UNTYPED: identified by its mechanism — the zero value is emitted as one of the four bare
			// untyped literals, which only denotes T where the context supplies T (not in `y := <zero>`)
			if m := reDefineRHS.FindStringSubmatch(o.Output()); m != nil {
				switch m[1] {
				case "nil", "0", `""`, "false":
					res.Detail = "type: " + typeText + "\n" + res.Detail
					res.Key = "zero[" + c14Variants[v] + "]: the zero value is emitted as the bare untyped literal " + m[1] + " (T is not the literal's default type)"
					res.Kind = "untyped-zero-in-define-context"
				}
			}
		}
		if res.Verdict == h.Held {
			res.Detail = zerosFunc(o.Output())
		}
		out = append(out, res)
	}
	return out
}

// sharedTypeIsInterface is a cheap syntactic test (the lazy variant is skipped for interface types).
func sharedTypeIsInterface(u *ref.Universe, typeText string) (struct{}, bool) {
	t := strings.TrimSpace(typeText)
	return struct{}{}, strings.HasPrefix(t, "interface") || t == "any" || t == "error" || t == "MyIface" || t == "MyEmpty" || strings.HasSuffix(t, ".I") || t == "io.Reader"
}

// c14Shape finds the synthesised zero expression in the output and checks its shape against the kind of T.
func c14Shape(o *drive.Outcome, variant int, T types.Type) string {
	if o.Out == nil || T == nil {
		return ""
	}
	var e ast.Expr
	for _, f := range o.Out.Files {
		ast.Inspect(f, func(n ast.Node) bool {
			switch x := n.(type) {
			case *ast.ValueSpec:
				if variant == 0 && len(x.Names) == 1 && x.Names[0].Name == "z" && len(x.Values) == 1 {
					e = x.Values[0]
				}
			case *ast.AssignStmt:
				if (variant == 1 || variant == 2) && len(x.Lhs) == 1 && len(x.Rhs) == 1 {
					if id, ok := x.Lhs[0].(*ast.Ident); ok && id.Name == "y" {
						e = x.Rhs[0]
					}
				}
			case *ast.ReturnStmt:
				if variant == 3 && len(x.Results) == 2 {
					e = x.Results[0]
				}
			case *ast.CallExpr:
				if variant == 4 {
					if id, ok := x.Fun.(*ast.Ident); ok && id.Name == "opt" && len(x.Args) == 2 {
						e = x.Args[1]
					}
				}
			}
			return true
		})
	}
	if e == nil {
		return ""
	}
	// strip parentheses and conversions T(x)
	for {
		switch x := e.(type) {
		case *ast.ParenExpr:
			e = x.X
			continue
		case *ast.CallExpr:
			if len(x.Args) == 1 {
				if tv, ok := o.Out.Info.Types[x.Fun]; ok && tv.IsType() {
					e = x.Args[0]
					continue
				}
			}
		}
		break
	}
	switch T.Underlying().(type) {
	case *types.Slice, *types.Map, *types.Pointer, *types.Chan, *types.Signature, *types.Interface:
		if id, ok := e.(*ast.Ident); !ok || id.Name != "nil" {
			return "the zero value of a " + strings.TrimPrefix(fmt.Sprintf("%T", T.Underlying()), "*types.") + " type is nil; emitted " + types.ExprString(e)
		}
	case *types.Basic:
		switch e.(type) {
		case *ast.CompositeLit:
			return "the zero value of a basic type is a literal; emitted " + types.ExprString(e)
		}
		if T.Underlying().(*types.Basic).Kind() == types.UnsafePointer {
			if id, ok := e.(*ast.Ident); !ok || id.Name != "nil" {
				return "the zero value of unsafe.Pointer is nil; emitted " + types.ExprString(e)
			}
			break
		}
		// value: when Go sees a constant here it must be the zero constant of its kind (0, 0.0, 0i, "", false)
		if tv, ok := o.Out.Info.Types[e]; ok && tv.Value != nil && !constIsZero(tv.Value) {
			return "the zero value of a basic type is 0 / \"\" / false; emitted the constant " + tv.Value.ExactString()
		}
	case *types.Struct, *types.Array:
		// value: a composite literal is the zero value only when it has no elements or all of them are themselves zero constants
		if cl, ok := e.(*ast.CompositeLit); ok {
			for _, el := range cl.Elts {
				if kv, ok := el.(*ast.KeyValueExpr); ok {
					el = kv.Value
				}
				tv, ok := o.Out.Info.Types[el]
				if id, isId := el.(*ast.Ident); isId && id.Name == "nil" {
					continue
				}
				if !ok || tv.Value == nil || !constIsZero(tv.Value) {
					return "the zero value of a struct / array type has no non-zero element; emitted " + types.ExprString(e)
				}
			}
		}
	}
	return ""
}

func constIsZero(v constant.Value) bool {
	switch v.Kind() {
	case constant.Bool:
		return !constant.BoolVal(v)
	case constant.String:
		return constant.StringVal(v) == ""
	case constant.Int, constant.Float:
		return constant.Sign(v) == 0
	case constant.Complex:
		return constant.Sign(constant.Real(v)) == 0 && constant.Sign(constant.Imag(v)) == 0
	}
	return false
}

var reDefineRHS = regexp.MustCompile(`(?m)^\ty := (.*)$`)

func zerosFunc(out string) string {
	for _, name := range []string{"func zeros()", "func retErr()", "func caller()"} {
		if i := strings.Index(out, name); i >= 0 {
			s := out[i:]
			if j := strings.Index(s, "\n}\n"); j >= 0 {
				s = s[:j+2]
			}
			if len(s) > 500 {
				s = s[:500]
			}
			return s
		}
	}
	return ""
}

func init() {
	h.Register(&h.Check{
		ID: "C14", Level: "exploration",
		Rule: "for random types T of the C13 type algebra (depth 0-3: every basic kind, named types over each kind, pointers, slices, maps, channels, functions, interfaces, arrays, structs, aliases, instantiated generics, types of two fixture packages and std) the zero value is " +
			"synthesised through the builder API in 5 positions: `var z T = ZeroLit(T)`, `y := ZeroLit(T)`, the zero-argument conversion `y := T()`, ReturnErr padding in a func() (T, error), and an omitted optional parameter of type T; each scenario is its own package, " +
			"printed and re-checked: Go must accept it, `y` must get exactly type T, the type reported on the operand stack must be T, and the emitted expression must have the shape and value of T's zero value (nil for slice/map/pointer/chan/func/interface/unsafe.Pointer kinds - an empty composite literal type-checks but is not nil; for basic kinds the constant go/types computes for the emitted expression must be 0 / \"\" / false; a struct or array literal must have no non-zero element). " +
			"Every scenario is repeated for `type Lz T` declared lazily (NewType now, body supplied by Config.LoadNamed on demand): the zero value is requested before anything else has loaded the type. non-trivial = scenario built and re-checked; distinct by (variant, type text)",
		Assume: []string{"go/types on the emitted package", "run-time zero-ness (reflect.IsZero) is not executed in this tier: typing only"},
		MinNT:  500,
		Plan:   func(tier string, seed uint64) int { return c14N(tier) },
		Run:    c14Run,
	})
}
