package checks

import (
	"crypto/sha256"
	"encoding/hex"
	"fmt"
	"os"
	"os/exec"
	"runtime"
	"sort"
	"strings"

	"github.com/goplus/gogen/verif/internal/drive"
	"github.com/goplus/gogen/verif/internal/gen"
	"github.com/goplus/gogen/verif/internal/h"
	"github.com/goplus/gogen/verif/internal/ref"
)

// C15 — output is a deterministic function of the operation sequence (DESIGN.md §2 C15).

// XGo fixture packages: several extension-package dependencies in exported signatures.
var xgoFixtures = map[string]string{
	"fx/x1": "package x1\nconst XGoPackage = true\ntype T1 struct{ A int }\nfunc F1__0(a int) {}\nfunc F1__1(a string) {}\nfunc G1(a T1) T1 { return a }\n",
	"fx/x2": "package x2\nconst XGoPackage = true\ntype T2 []int\nfunc (T2) M__0() {}\nfunc (T2) M__1(int) {}\nfunc F2__0() {}\nfunc F2__1(float64) {}\ntype U2__0 struct{}\ntype U2__1[T any] struct{ V T }\n",
	"fx/x3": "package x3\nconst XGoPackage = true\ntype T3 map[string]int\nconst XGoo_F3 = \"A,B\"\nfunc A() {}\nfunc B(int) {}\nfunc H3__0(a int) {}\nfunc H3__1(a, b int) {}\n",
	"fx/x4": "package x4\nconst XGoPackage = true\ntype T4 interface{ Do() }\n",
	"fx/x5": "package x5\nconst XGoPackage = true\ntype T5 func(int) int\n",
}

func addXGoFixtures(u *ref.Universe) {
	for p, s := range xgoFixtures {
		u.AddSource(p, s)
	}
}

type c15Prog struct {
	key   string
	srcs  []string
	names []string
	path  string
	hist  int // >0: import history hist-1 of the C09 workload (driven through the API, not from source)
	seed  uint64
}

// c15Program: every fifth program is an import history of the C09 workload (1-3 files, imports with equal base names
// from up to five paths, declarations named like imports, discarded references): the part of the output whose bytes
// depend on name allocation. The others are source-driven programs (c15SrcProgram).
func c15Program(seed uint64, i int) c15Prog {
	if i%5 == 4 {
		return c15Prog{key: fmt.Sprintf("import history seed=%d case=%d", seed, i/5), hist: i/5 + 1, seed: seed}
	}
	return c15SrcProgram(seed, i-i/5)
}

func c15SrcProgram(seed uint64, i int) c15Prog {
	r := h.NewRand(seed, 15, uint64(i))
	switch i % 4 {
	case 0: // library package whose exported signatures mention several XGo packages
		pkgs := []string{"fx/x1", "fx/x2", "fx/x3", "fx/x4", "fx/x5", "github.com/goplus/gogen/internal/foo", "github.com/goplus/gogen/internal/overload", "github.com/goplus/gogen/internal/builtin"}
		tys := []string{"x1.T1", "x2.T2", "x3.T3", "x4.T4", "x5.T5", "foo.NodeSet", "*overload.Game", "builtin.XGo_bigint"}
		n := 3 + r.Intn(len(pkgs)-2)
		perm := r.Perm(len(pkgs))[:n]
		var sb strings.Builder
		sb.WriteString("package mylib\n\nimport (\n")
		for _, k := range perm {
			sb.WriteString("\t\"" + pkgs[k] + "\"\n")
		}
		sb.WriteString(")\n\n")
		for j, k := range perm {
			switch r.Intn(4) {
			case 0:
				fmt.Fprintf(&sb, "func Exp%d(a %s) {}\n", j, tys[k])
			case 1:
				fmt.Fprintf(&sb, "var V%d []%s\n", j, tys[k])
			case 2:
				fmt.Fprintf(&sb, "type S%d struct{ F map[string]%s }\n", j, tys[k])
			default:
				fmt.Fprintf(&sb, "func Ret%d() (r chan %s) { return }\n", j, tys[k])
			}
		}
		sb.WriteString("func use() {\n\tx1use()\n}\nfunc x1use() {}\n")
		return c15Prog{key: fmt.Sprintf("xgo-deps library seed=%d case=%d (%d extension packages)", seed, i, n), srcs: []string{sb.String()}, path: "mylib"}
	case 1:
		p := mkProg("C15", seed, i, false, false)
		srcs, names := splitFiles(p.src[0], h.NewRand(seed, 7, uint64(i)))
		return c15Prog{key: fmt.Sprintf("generated multi-file program seed=%d case=%d", seed, i), srcs: srcs, names: names}
	case 2:
		c := Corpus()[(i/4)%len(Corpus())]
		return c15Prog{key: "corpus " + c.Name, srcs: []string{c.Src}}
	default:
		p := mkProg("C15", seed, i, false, true)
		return c15Prog{key: fmt.Sprintf("generated program seed=%d case=%d", seed, i), srcs: p.src}
	}
}

func c15Universe() *ref.Universe {
	u := sharedUniverse()
	if _, ok := c15Added[u]; !ok {
		addXGoFixtures(u)
		c15Added[u] = true
	}
	return u
}

var c15Added = map[*ref.Universe]bool{}

func hashFiles(o *drive.Outcome) string {
	var parts []string
	for _, fn := range o.FileOrder {
		s := sha256.Sum256([]byte(o.Files[fn]))
		parts = append(parts, fn+"="+hex.EncodeToString(s[:8]))
	}
	sort.Strings(parts)
	return strings.Join(parts, " ")
}

var c15Sink [][]byte

func c15BuildOnce(p c15Prog, u *ref.Universe) (string, *drive.Outcome) {
	if p.hist > 0 {
		if !c09Added[u] {
			u.AddSource(fxCFmt, fxCFmtSrc)
			u.AddSource(fxDFmt, fxCFmtSrc)
			u.AddSource(fxCUtil, fxCUtilSrc)
			c09Added[u] = true
		}
		o, pkg, _ := c09Build(u, "quick", p.seed, p.hist-1)
		if o.Status == "accepted" {
			o.Write(u, pkg, "main")
		}
		if o.Status != "accepted" {
			return "status:" + o.Status + ":" + normMsg(o.Msg), o
		}
		return hashFiles(o), o
	}
	o := drive.Build(u, p.srcs, drive.Opt{NoCompare: true, FileNames: p.names, PkgPath: p.path})
	if o.Status != "accepted" {
		return "status:" + o.Status + ":" + normMsg(o.Msg), o
	}
	return hashFiles(o), o
}

// C15Child is the entry point of the cross-process replay: prints the build fingerprint of one program.
func C15Child(seed uint64, i int, noise int) {
	for k := 0; k < noise; k++ {
		c15Sink = append(c15Sink, make([]byte, 1000+k*37))
	}
	fp, _ := c15BuildOnce(c15Program(seed, i), c15Universe())
	fmt.Println("FP " + fp)
}

func c15N(tier string) int {
	if tier == "thorough" {
		return 1500
	}
	return 240
}

func c15Run(tier string, seed uint64, i int) []h.Result {
	p := c15Program(seed, i)
	res := h.Result{Key: p.key, Verdict: h.Held}
	first, o := c15BuildOnce(p, c15Universe())
	if o.Status == "fe" {
		res.Verdict, res.Kind, res.Detail = h.Skip, "front-end", o.Msg
		return []h.Result{res}
	}
	r := h.NewRand(seed, 1515, uint64(i))
	nrep := 6
	if p.hist > 0 {
		nrep = 24 // name allocation that follows a map order differs in a minority of builds only
	}
	fps := map[string]int{first: 1}
	for k := 1; k < nrep; k++ {
		// perturb the heap between builds: garbage + forced collections move map layouts and addresses
		for g := 0; g < 1+r.Intn(40); g++ {
			c15Sink = append(c15Sink, make([]byte, 100+r.Intn(5000)))
		}
		if r.Bool() {
			runtime.GC()
		}
		if len(c15Sink) > 2000 {
			c15Sink = nil
		}
		u := c15Universe()
		if k == 1 && i%4 == 0 {
			u = newFixtureUniverse() // a fresh importer: first-time import paths
			addXGoFixtures(u)
		}
		fp, _ := c15BuildOnce(p, u)
		fps[fp]++
	}
	res.Count("in_process_builds", int64(nrep))
	// cross-process replays
	nproc := 0
	if i%12 == 0 || tier == "thorough" && i%4 == 0 {
		exe, _ := os.Executable()
		envs := [][]string{{"GOGC=1", "GOMAXPROCS=1"}, {"GOGC=400", "GOMAXPROCS=16"}, {"GOGC=off", "GOMAXPROCS=3"}}
		for k, env := range envs {
			cmd := exec.Command(exe, "c15child", fmt.Sprint(seed), fmt.Sprint(i), fmt.Sprint(k*977))
			cmd.Env = append(os.Environ(), env...)
			out, err := cmd.Output()
			if err != nil {
				continue
			}
			for _, l := range strings.Split(string(out), "\n") {
				if strings.HasPrefix(l, "FP ") {
					fps[strings.TrimPrefix(l, "FP ")]++
					nproc++
				}
			}
		}
	}
	res.Count("cross_process_builds", int64(nproc))
	res.NonTrivial = o.Status == "accepted"
	res.Tag("files:" + fmt.Sprint(len(o.FileOrder)))
	if len(fps) > 1 {
		res.Verdict, res.Kind = h.Violated, "nondeterministic-output"
		var ds []string
		for fp, n := range fps {
			ds = append(ds, fmt.Sprintf("%d builds: %s", n, fp))
		}
		sort.Strings(ds)
		res.Detail = fmt.Sprintf("%d distinct outputs from %d in-process and %d cross-process builds of the same operation sequence:\n%s", len(fps), nrep, nproc, strings.Join(ds, "\n"))
		res.Input = strings.Join(p.srcs, "\n// ---- next file ----\n")
	} else {
		res.Detail = fmt.Sprintf("%d in-process + %d cross-process builds byte-identical: %s", nrep, nproc, first)
	}
	return []h.Result{res}
}

func init() {
	_ = gen.FxA
	h.Register(&h.Check{
		ID: "C15", Level: "exploration",
		Rule: "the same operation sequence (front-end driven program; every fifth case an API-driven import history of the C09 workload — 1-3 files, up to five imports with equal base names, declarations named like imports, discarded references — built 24 times) is built 6 times in one process — alternating a warm importer and a fresh importer, with seed-chosen garbage allocation and forced GCs between builds — and, for every 12th program (thorough: every 4th), " +
			"3 more times in fresh processes with GOGC=1/400/off, GOMAXPROCS=1/16/3 and different heap pre-allocation; SHA-256 of every written file must be identical across all builds. Programs: library packages whose exported signatures mention 3-8 extension (XGo) packages " +
			"with overload families (fixture packages + gogen's own internal/foo, overload, builtin), generated multi-file programs (several imports per file), corpus programs, deep generated programs (many labels/closures). " +
			"non-trivial = accepted program replayed; distinct by program",
		Assume: []string{"byte comparison of Package.WriteTo output", "Go map iteration order is randomised per iteration, so repeated builds expose map-order dependence with high probability per build"},
		MinNT:  50,
		Plan:   func(tier string, seed uint64) int { return c15N(tier) },
		Run:    c15Run,
	})
}
