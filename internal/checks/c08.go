package checks

import (
	"fmt"
	"go/ast"
	"go/types"
	"strings"

	"github.com/goplus/gogen/verif/internal/drive"
	"github.com/goplus/gogen/verif/internal/gen"
	"github.com/goplus/gogen/verif/internal/h"
	"github.com/goplus/gogen/verif/internal/ref"
)

// C08 — selector resolution follows Go's field and method lookup rules (DESIGN.md §2 C08).

func c08N(tier string) int {
	if tier == "thorough" {
		return 1500
	}
	return 60
}

func c08Universe() *ref.Universe {
	u := sharedUniverse()
	if !c08Added[u] {
		u.AddSource(gen.FxSel, gen.FxSelSrc)
		c08Added[u] = true
	}
	return u
}

var c08Added = map[*ref.Universe]bool{}

func c08Run(tier string, seed uint64, i int) []h.Result {
	r := h.NewRand(seed, 8, uint64(i))
	g := gen.SelGraphGen(r)
	u := c08Universe()
	var out []h.Result
	roots := append(append([]string{}, g.Roots[:min(3, len(g.Roots))]...), "I0")
	for _, root := range roots {
		for _, name := range gen.SelProbeNames {
			probes := gen.SelProbes(root, name)
			if root == "I0" {
				probes = []string{fmt.Sprintf("var v I0; _ = v.%s", name), fmt.Sprintf("var v I0; v.%s()", name), fmt.Sprintf("_ = I0.%s", name), fmt.Sprintf("var p *I0; _ = p.%s", name)}
			}
			for _, stmt := range probes {
				src := "package main\n\n" + g.Decls + "\nfunc probe() {\n\t" + stmt + "\n}\n"
				o := drive.Build(u, []string{src}, drive.Opt{})
				res := judgeC08(fmt.Sprintf("graph#%x: %s", h.StrHash(g.Decls)&0xffffff, stmt), o, name)
				if res.Verdict == h.Violated || verbose() {
					res.Input = src
				}
				if res.Verdict == h.Violated && !strings.HasPrefix(res.Kind, "crash") {
					// The member-lookup algorithm (depth-first, first hit) is one recorded design-level finding; random graphs cannot be
					// listed input by input, so a violation is identified by (operand form, what Go says, what the builder did):
					// a different form, a different Go verdict class or a different wrong behaviour is still reported.
					form := strings.ReplaceAll(strings.ReplaceAll(stmt, root, "T"), "."+name, ".NAME")
					gov := "accepts" + c08GoSelection(o, name)
					// The recorded lookup defects need a second member of the same name somewhere in the embedding graph
					// (shadowed deeper down, or on another path). A wrong answer for a name that is reachable along exactly
					// one path is a different violation.
					if o.SrcValid && c08Paths(o, root, name) == 1 {
						gov += " (the only member of that name in the graph)"
					}
					if !o.SrcValid {
						gov = "rejects(" + selErrClass(firstN(o.SrcErrs, 1)) + ")"
					}
					kind := res.Kind
					if j := strings.Index(kind, ": "); j > 0 {
						kind = kind[:j]
					}
					res.Detail = res.Key + "\n" + res.Kind + "\n" + res.Detail
					res.Key = "selector form `" + form + "` where Go " + gov
					res.Kind = kind
				}
				out = append(out, res)
			}
		}
	}
	return out
}

// c08GoSelection describes what Go selects: kind of member and embedding depth (0 = declared on the operand's own type).
// It is part of the identity of a recorded finding: the recorded lookup defects need the member Go designates to be a
// promoted one (depth >= 1); a wrong answer for a member the type declares itself is a different violation.
func c08GoSelection(o *drive.Outcome, name string) string {
	if o.Src == nil || o.Src.Info == nil {
		return ""
	}
	best := ""
	for sel, s := range o.Src.Info.Selections {
		if sel.Sel.Name != name {
			continue
		}
		k := "field"
		if _, ok := s.Obj().(*types.Func); ok {
			k = "method"
		}
		if len(s.Index()) == 1 {
			best = fmt.Sprintf(" a %s declared on the type itself", k)
		} else {
			best = fmt.Sprintf(" a promoted %s", k)
		}
	}
	return best
}

// c08Paths counts the embedding paths from the root type along which a field or method called name is reachable
// (all depths, value and pointer embedding, embedded interfaces), according to go/types on the source program.
func c08Paths(o *drive.Outcome, root, name string) int {
	if o.Src == nil || o.Src.Pkg == nil {
		return -1
	}
	ob := o.Src.Pkg.Scope().Lookup(root)
	if ob == nil {
		return -1
	}
	var walk func(t types.Type, depth int) int
	walk = func(t types.Type, depth int) int {
		if depth > 8 {
			return 0
		}
		if p, ok := types.Unalias(t).(*types.Pointer); ok {
			t = p.Elem()
		}
		n := 0
		if nt, ok := types.Unalias(t).(*types.Named); ok {
			for i := 0; i < nt.NumMethods(); i++ {
				if nt.Method(i).Name() == name {
					n++
				}
			}
		}
		switch u := t.Underlying().(type) {
		case *types.Struct:
			for i := 0; i < u.NumFields(); i++ {
				f := u.Field(i)
				if f.Name() == name {
					n++
				}
				if f.Embedded() {
					n += walk(f.Type(), depth+1)
				}
			}
		case *types.Interface:
			for i := 0; i < u.NumMethods(); i++ { // complete method set (embedded interfaces flattened)
				if u.Method(i).Name() == name {
					n++
				}
			}
		}
		return n
	}
	return walk(ob.Type(), 0)
}

func judgeC08(key string, o *drive.Outcome, name string) h.Result {
	r := h.Result{Key: key, Verdict: h.Held}
	if skipFE(&r, o) {
		return r
	}
	r.NonTrivial = true
	r.Count("selector_probes", 1)
	accepted := o.Status == "accepted"
	if o.SrcValid {
		r.Tag("go:accepts")
	} else {
		r.Tag("go:rejects:" + selErrClass(firstN(o.SrcErrs, 1)))
	}
	switch {
	case o.Status == "crash":
		r.Verdict, r.Kind, r.Detail = h.Violated, "crash: "+o.CrashSig, o.Msg+"\n"+o.Stack
	case o.SrcValid && !accepted:
		r.Verdict, r.Kind = h.Violated, "rejected-valid-selector"
		r.Detail = "Go accepts the selector; builder reports: " + o.Msg
	case !o.SrcValid && accepted && len(o.OutErrs) > 0:
		r.Verdict, r.Kind = h.Violated, "accepted-invalid-selector: "+selErrClass(o.OutErrs[0])
		r.Detail = "Go rejects (" + firstN(o.SrcErrs, 1) + "); builder accepted and emitted:\n" + probeFunc(o.Output())
	case !o.SrcValid && accepted:
		r.Detail = "accepted through an extension; output type-checks: " + probeFunc(o.Output())
		r.Count("accepted_via_extension", 1)
	case accepted:
		if len(o.DumpDiffs) > 0 {
			r.Verdict, r.Kind = h.Violated, "selector-rewritten"
			r.Detail = firstN(o.DumpDiffs, 2)
			break
		}
		if len(o.TypeDiffs) > 0 {
			r.Verdict, r.Kind = h.Violated, "member-type: "+diffStr(o.TypeDiffs[0])
			r.Detail = "the member the builder resolved has a different type from the one Go designates: " + diffStr(o.TypeDiffs[0])
			break
		}
		// recorder: the object notified for the member must be the one Go selects
		if d := c08Recorder(o, name); d != "" {
			r.Verdict, r.Kind, r.Detail = h.Violated, "recorder-member", d
			break
		}
		r.Count("resolved_and_compared", 1)
		r.Detail = fmt.Sprintf("resolved; %d types equal", o.NCmpType)
	default:
		r.Count("both_reject", 1)
		r.Detail = "both reject: " + firstN(o.SrcErrs, 1)
	}
	return r
}

func selErrClass(m string) string {
	switch {
	case strings.Contains(m, "ambiguous selector"):
		return "ambiguous"
	case strings.Contains(m, "undefined"):
		return "undefined"
	case strings.Contains(m, "pointer method") || strings.Contains(m, "pointer receiver"):
		return "pointer-method"
	case strings.Contains(m, "cannot assign"):
		return "not-assignable"
	case strings.Contains(m, "cannot call non-function") || strings.Contains(m, "non-function"):
		return "call-non-func"
	case strings.Contains(m, "is not used"):
		return "unused-expr"
	}
	if len(m) > 40 {
		m = m[:40]
	}
	return m
}

func probeFunc(out string) string {
	if i := strings.Index(out, "func probe()"); i >= 0 {
		s := out[i:]
		if j := strings.Index(s, "\n}\n"); j >= 0 {
			s = s[:j+2]
		}
		return s
	}
	return ""
}

func c08Recorder(o *drive.Outcome, name string) string {
	var want types.Object
	for sel, s := range o.Out.Info.Selections {
		if sel.Sel.Name == name {
			want = s.Obj()
		}
	}
	if want == nil {
		// method expressions on interface types etc. have selections too; qualified identifiers do not
		_ = ast.Inspect
		return ""
	}
	for _, ev := range o.RecEvents {
		if ev.Kind != "member" || ev.Obj == nil || ev.Obj.Name() != name {
			continue
		}
		_, wf := want.(*types.Var)
		_, gf := ev.Obj.(*types.Var)
		if wf != gf {
			return fmt.Sprintf("Recorder.Member got %v, Go selects %v", ev.Obj, want)
		}
		if !ref.TypeEq(ev.Obj.Type(), want.Type()) {
			return fmt.Sprintf("Recorder.Member object %v has type %s, Go's selection %v has type %s", ev.Obj, drive.TypeStr(ev.Obj.Type()), want, drive.TypeStr(want.Type()))
		}
	}
	return ""
}

func init() {
	h.Register(&h.Check{
		ID: "C08", Level: "exploration",
		Rule: "random type graphs (3-6 structs with value/pointer embedding to depth 4, the same member name at equal and different depths, fields vs fields and fields vs methods, value/pointer-receiver methods, embedded interfaces, an embedded struct/interface from a fixture " +
			"package with exported and unexported fields and methods); every member has its own distinct type so the selected member is identified by the expression's type. For 4 root types x 15 names (incl. absent) x 15 operand forms (value variable, pointer variable, " +
			"assignment target through value and pointer, composite literal, address of literal, method expression T.m and (*T).m, call on variable / literal / map element / call result, **T) the one-statement program is built: accept/reject must equal go/types' verdict, " +
			"the reported type of the selector expression must equal Go's (C03 correspondence), and the Recorder.Member object must be of the same kind and type as Go's Selection.Obj(). non-trivial = probe decided; distinct by graph hash + probe",
		Assume: []string{"go/types LookupFieldOrMethod rules via Info.Selections on the same graph", "names differing only in the case of the first letter are not generated (lower-case alias / auto-property sugar is C11's subject)"},
		MinNT:  500,
		Plan:   func(tier string, seed uint64) int { return c08N(tier) },
		Run:    c08Run,
	})
}
