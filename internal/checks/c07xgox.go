package checks

import (
	"fmt"
	"go/ast"
	"go/token"
	"go/types"
	"runtime"
	"strings"

	"github.com/goplus/gogen"
	"github.com/goplus/gogen/verif/internal/drive"
	"github.com/goplus/gogen/verif/internal/h"
	"github.com/goplus/gogen/verif/internal/ref"
)

// C07, type-as-parameter functions (XGox_ prefix): F(T1, ..., args...) is lowered to XGox_F[T1, ..., inferred...](args...).
// The leading type arguments are explicit, the trailing ones are inferred and WRITTEN OUT by the builder, so a wrong
// index or order in that list is visible only when two or more parameters are inferred with different types.
// Driven through the API (a type value as an argument is not Go source). Reference: go/types on the partial
// instantiation `conv.XGox_F[T1, ...](args...)`, which Go infers the same way.

const c07xFx = "fx/conv"
const c07xFxSrc = `package conv

const XGoPackage = true

func XGox_Convert[To any, From any](src From) (r To)                     { return }
func XGox_Pick[K any, A any, B any](a A, b B) B                          { return b }
func XGox_First[K any, A any, B any](a A, b B) A                         { return a }
func XGox_Both[K any, A any, B any](a A, b B) func(K) func(A) B          { return nil }
func XGox_Two[K any, T any](a, b T) T                                    { return a }
func XGox_Elem[K any, E any, F any](xs []E, f F) func(E) F               { return nil }
func XGox_Three[K1 any, K2 any, A any, B any, C any](a A, b B, c C) C    { return c }
func XGox_Cmp[K comparable, A comparable, B any](a A, b B) map[A]B       { return nil }
func XGox_Num[K any, A ~int | ~float64, B ~string](a A, b B) A           { return a }
func XGox_Fn[K any, A any, B any](f func(A) B, a A) B                    { return f(a) }
func XGox_Only[K any](x int) (r K)                                       { return }
func XGox_Ret[K any, R any, A any](a A) (r R)                            { return }
`

type c07xArg struct {
	text string
	push func(e *c07xEnv)
}

type c07xEnv struct {
	pkg *gogen.Package
	cb  *gogen.CodeBuilder
}

func (e *c07xEnv) v(name string) types.Object { return e.pkg.Types.Scope().Lookup(name) }

const c07xPrelude = `type MyInt int
type MyStr string

var i int
var f64 float64
var s string
var sl []int
var ss []string
var mi MyInt
var ms MyStr
var fis func(int) string
var e error
`

var c07xArgs = []c07xArg{
	{"1", func(e *c07xEnv) { e.cb.Val(1) }},
	{"2.5", func(e *c07xEnv) { e.cb.Val(2.5) }},
	{`"s"`, func(e *c07xEnv) { e.cb.Val("s") }},
	{"'a'", func(e *c07xEnv) { e.cb.Val('a') }},
	{"true", func(e *c07xEnv) { e.cb.Val(true) }},
	{"nil", func(e *c07xEnv) { e.cb.Val(nil) }},
	{"i", func(e *c07xEnv) { e.cb.Val(e.v("i")) }},
	{"f64", func(e *c07xEnv) { e.cb.Val(e.v("f64")) }},
	{"s", func(e *c07xEnv) { e.cb.Val(e.v("s")) }},
	{"sl", func(e *c07xEnv) { e.cb.Val(e.v("sl")) }},
	{"ss", func(e *c07xEnv) { e.cb.Val(e.v("ss")) }},
	{"mi", func(e *c07xEnv) { e.cb.Val(e.v("mi")) }},
	{"ms", func(e *c07xEnv) { e.cb.Val(e.v("ms")) }},
	{"fis", func(e *c07xEnv) { e.cb.Val(e.v("fis")) }},
	{"e", func(e *c07xEnv) { e.cb.Val(e.v("e")) }},
}

type c07xTy struct {
	text string
	typ  func(e *c07xEnv) types.Type
}

var c07xTypes = []c07xTy{
	{"string", func(*c07xEnv) types.Type { return types.Typ[types.String] }},
	{"int8", func(*c07xEnv) types.Type { return types.Typ[types.Int8] }},
	{"[]float64", func(*c07xEnv) types.Type { return types.NewSlice(types.Typ[types.Float64]) }},
	{"MyInt", func(e *c07xEnv) types.Type { return e.v("MyInt").Type() }},
	{"map[string]bool", func(*c07xEnv) types.Type { return types.NewMap(types.Typ[types.String], types.Typ[types.Bool]) }},
}

type c07xCall struct {
	fn    string
	types []int // indices into c07xTypes
	args  []int // indices into c07xArgs
}

var c07xFuncs = []struct {
	name   string
	ntypes int // leading explicit type parameters the documented call form gives
	nargs  int
}{{"Convert", 1, 1}, {"Pick", 1, 2}, {"First", 1, 2}, {"Both", 1, 2}, {"Two", 1, 2}, {"Elem", 1, 2}, {"Three", 2, 3}, {"Cmp", 1, 2}, {"Num", 1, 2}, {"Fn", 1, 2}, {"Only", 1, 1}, {"Ret", 2, 1}, {"Ret", 1, 1}, {"Pick", 2, 2}, {"Pick", 3, 2}, {"Pick", 0, 2}}

var c07xAll []c07xCall

// c07xCalls enumerates every function x leading types (first type varied, the others rotated) x argument tuples.
func c07xCalls() []c07xCall {
	if c07xAll != nil {
		return c07xAll
	}
	for _, f := range c07xFuncs {
		var tuples [][]int
		switch f.nargs {
		case 1:
			for a := range c07xArgs {
				tuples = append(tuples, []int{a})
			}
		case 2:
			for a := range c07xArgs {
				for b := range c07xArgs {
					tuples = append(tuples, []int{a, b})
				}
			}
		default:
			for a := 0; a < len(c07xArgs); a += 2 {
				for b := 1; b < len(c07xArgs); b += 3 {
					for c := 0; c < len(c07xArgs); c += 4 {
						tuples = append(tuples, []int{a, b, c})
					}
				}
			}
		}
		for k, tu := range tuples {
			var ts []int
			for j := 0; j < f.ntypes; j++ {
				ts = append(ts, (k+j*2)%len(c07xTypes))
			}
			c07xAll = append(c07xAll, c07xCall{f.name, ts, tu})
		}
	}
	return c07xAll
}

var c07xAdded = map[*ref.Universe]bool{}

func c07xRun(k int) []h.Result {
	call := c07xCalls()[k]
	u := sharedUniverse()
	if !c07xAdded[u] {
		u.AddSource(c07xFx, c07xFxSrc)
		c07xAdded[u] = true
	}
	if _, err := u.Import(c07xFx); err != nil {
		return []h.Result{{Key: "type-as-parameter fixture", Verdict: h.Inconclusive, Kind: "fixture-invalid", Detail: err.Error()}}
	}
	var tts, ats []string
	for _, t := range call.types {
		tts = append(tts, c07xTypes[t].text)
	}
	for _, a := range call.args {
		ats = append(ats, c07xArgs[a].text)
	}
	form := fmt.Sprintf("conv.%s(%s)", call.fn, strings.Join(append(append([]string{}, tts...), ats...), ", "))
	res := h.Result{Key: "type-as-parameter call " + form, Verdict: h.Held, NonTrivial: true}
	res.Count("type_as_parameter_calls", 1)
	// reference: the partial instantiation in plain Go
	idx := ""
	if len(tts) > 0 {
		idx = "[" + strings.Join(tts, ", ") + "]"
	}
	refSrc := "package main\n\nimport \"" + c07xFx + "\"\n\n" + c07xPrelude + "\nfunc probe() {\n\tv := conv.XGox_" + call.fn + idx + "(" + strings.Join(ats, ", ") + ")\n\t_ = v\n}\n"
	rc := u.Check("main", refSrc)
	refOK := len(rc.Errs) == 0
	// builder
	o := &drive.Outcome{OpKinds: map[string]int{}}
	pkg := drive.NewPackage(u, "main", drive.Opt{}, o)
	e := &c07xEnv{pkg: pkg, cb: pkg.CB()}
	var reported types.Type
	func() {
		defer func() {
			if x := recover(); x != nil {
				buf := make([]byte, 1<<14)
				n := runtime.Stack(buf, false)
				o.Stack = string(buf[:n])
				o.Status, o.Msg, o.CrashSig = drive.Classify(x, o.Stack)
			}
		}()
		pkg.NewType("MyInt").InitType(pkg, types.Typ[types.Int])
		pkg.NewType("MyStr").InitType(pkg, types.Typ[types.String])
		cb := e.cb
		cb.NewVar(types.Typ[types.Int], "i")
		cb.NewVar(types.Typ[types.Float64], "f64")
		cb.NewVar(types.Typ[types.String], "s")
		cb.NewVar(types.NewSlice(types.Typ[types.Int]), "sl")
		cb.NewVar(types.NewSlice(types.Typ[types.String]), "ss")
		cb.NewVar(e.v("MyInt").Type(), "mi")
		cb.NewVar(e.v("MyStr").Type(), "ms")
		cb.NewVar(types.NewSignatureType(nil, nil, nil, types.NewTuple(types.NewVar(token.NoPos, nil, "", types.Typ[types.Int])), types.NewTuple(types.NewVar(token.NoPos, nil, "", types.Typ[types.String])), false), "fis")
		cb.NewVar(types.Universe.Lookup("error").Type(), "e")
		conv := pkg.Import(c07xFx)
		pkg.NewFunc(nil, "probe", nil, nil, false).BodyStart(pkg)
		cb.DefineVarStart(token.NoPos, "v").Val(conv.Ref(call.fn))
		for _, t := range call.types {
			cb.Typ(c07xTypes[t].typ(e))
		}
		for _, a := range call.args {
			c07xArgs[a].push(e)
		}
		cb.Call(len(call.types) + len(call.args))
		reported = cb.Get(-1).Type
		cb.EndInit(1)
		cb.VarRef(nil).VarVal("v").Assign(1, 1)
		cb.End()
		o.Status = "accepted"
	}()
	if o.Status == "accepted" && len(o.Handled) > 0 {
		o.Status, o.Msg = "rejected", o.Handled[0]
	}
	fail := func(kind, detail string) []h.Result {
		res.Verdict, res.Kind, res.Detail = h.Violated, kind, detail
		res.Input = refSrc
		return []h.Result{res}
	}
	if o.Status == "crash" {
		return fail("crash: "+o.CrashSig, o.Msg+"\n"+o.Stack)
	}
	if o.Status != "accepted" {
		if refOK {
			return fail("valid-call-rejected", "go/types accepts "+form+" as XGox_"+call.fn+idx+"(...); builder reports: "+o.Msg)
		}
		res.Count("both_reject", 1)
		res.Detail = "both reject: " + firstN(rc.Errs, 1)
		return []h.Result{res}
	}
	if !o.Write(u, pkg, "main") {
		return fail("write-failed:"+o.Status, o.Msg)
	}
	probe := probeFunc(o.Output())
	if len(o.OutErrs) > 0 {
		if refOK {
			return fail("lowered-call-ill-typed", firstN(o.OutErrs, 2)+"\n"+probe)
		}
		return fail("invalid-call-accepted", "go/types rejects ("+firstN(rc.Errs, 1)+"); builder emitted:\n"+probe+"\n"+firstN(o.OutErrs, 1))
	}
	if !refOK {
		res.Count("accepted_via_extension", 1)
		res.Detail = "go/types rejects the partial instantiation (" + firstN(rc.Errs, 1) + "); the lowered call type-checks: " + probe
		return []h.Result{res}
	}
	// type arguments written out == type arguments Go infers
	inst := func(c *ref.Checked) *types.TypeList {
		for id, in := range c.Info.Instances {
			if id.Name == "XGox_"+call.fn {
				return in.TypeArgs
			}
		}
		return nil
	}
	want, got := inst(rc), inst(o.Out)
	if want == nil || got == nil || want.Len() != got.Len() {
		return fail("instantiation-missing", fmt.Sprintf("reference instance %v, output instance %v\n%s", want, got, probe))
	}
	for j := 0; j < want.Len(); j++ {
		if !ref.TypeEq(want.At(j), got.At(j)) {
			return fail(fmt.Sprintf("type-argument-%d-differs", j), fmt.Sprintf("go/types infers %s for %s, the emitted call instantiates with %s\n%s", typeListStr(want), form, typeListStr(got), probe))
		}
	}
	// reported result type == type Go gives v
	var vt types.Type
	for id, ob := range rc.Info.Defs {
		if ob != nil && id.Name == "v" {
			vt = ob.Type()
		}
	}
	if vt != nil && reported != nil && !ref.TypeEq(types.Default(reported), vt) {
		return fail("reported-result-type", fmt.Sprintf("builder reports %s for %s, go/types gives %s", drive.TypeStr(reported), form, drive.TypeStr(vt)))
	}
	res.Count("type_arguments_compared", int64(want.Len()))
	res.Detail = "XGox_" + call.fn + typeListStr(got)
	_ = ast.Inspect
	return []h.Result{res}
}

func typeListStr(l *types.TypeList) string {
	var ts []string
	for i := 0; i < l.Len(); i++ {
		ts = append(ts, drive.TypeStr(l.At(i)))
	}
	return "[" + strings.Join(ts, ", ") + "]"
}
