package checks

import (
	"fmt"
	"os"
	"sort"
	"strings"
	"sync"

	"github.com/goplus/gogen/verif/internal/drive"
	"github.com/goplus/gogen/verif/internal/gen"
	"github.com/goplus/gogen/verif/internal/h"
)

// Shared atom engine (DESIGN.md E1/E3): every catalogue atom is a one-statement program in a fixed environment.

var (
	atomOnce sync.Once
	atomCats map[string][]gen.Atom
)

func catalogues() map[string][]gen.Atom {
	atomOnce.Do(func() {
		atomCats = map[string][]gen.Atom{
			"operator":   gen.OperatorAtoms(),
			"shift":      gen.ShiftAtoms(),
			"conv":       gen.ConversionAtoms(),
			"assign":     gen.AssignAtoms(),
			"compare":    gen.CompareAtoms(),
			"builtin":    gen.BuiltinAtoms(),
			"access":     gen.AccessAtoms(),
			"constgroup": gen.ConstGroupAtoms(),
		}
	})
	return atomCats
}

type atomCase struct {
	atom gen.Atom
	cfg  string // "default" | "xgo" | "bare"
}

const atomBatch = 1

// atomPlan lists the (atom, config) pairs of a run: the complete catalogues (thorough) or a stratified sample (quick).
func atomPlan(tier string, seed uint64, cats []string, cfgs []string, per int, filter func(gen.Atom) bool) []atomCase {
	var all []gen.Atom
	for _, c := range cats {
		for _, a := range catalogues()[c] {
			if filter == nil || filter(a) {
				all = append(all, a)
			}
		}
	}
	var pick []int
	if tier == "thorough" {
		pick = make([]int, len(all))
		for i := range pick {
			pick[i] = i
		}
	} else {
		pick = h.Sample(len(all), func(i int) string { return all[i].Strat }, per, seed)
	}
	out := make([]atomCase, 0, len(pick)*len(cfgs))
	for _, i := range pick {
		for _, c := range cfgs {
			out = append(out, atomCase{all[i], c})
		}
	}
	return out
}

func cfgOpt(cfg string) drive.Opt {
	switch cfg {
	case "xgo":
		return drive.Opt{XGo: true}
	case "bare":
		return drive.Opt{Bare: true}
	}
	return drive.Opt{}
}

func runAtom(ac atomCase, noCompare bool) *drive.Outcome {
	opt := cfgOpt(ac.cfg)
	opt.NoCompare = noCompare
	return drive.Build(sharedUniverse(), []string{ac.atom.Program()}, opt)
}

func atomKey(ac atomCase) string { return "[" + ac.cfg + "] " + ac.atom.Text() }

// planCache memoises the plan per (check, tier, seed) inside a worker process.
var planCache = map[string][]atomCase{}

func cachedPlan(id, tier string, seed uint64, mk func() []atomCase) []atomCase {
	k := fmt.Sprintf("%s/%s/%d", id, tier, seed)
	if p, ok := planCache[k]; ok {
		return p
	}
	p := mk()
	planCache[k] = p
	return p
}

func verbose() bool { return os.Getenv("VERIF_VERBOSE") != "" }

func firstN(xs []string, n int) string {
	if len(xs) > n {
		xs = xs[:n]
	}
	return strings.Join(xs, " | ")
}

func sortedKeys(m map[string]int) []string {
	var ks []string
	for k := range m {
		ks = append(ks, k)
	}
	sort.Strings(ks)
	return ks
}

// normMsg removes positions and quoted source from a message so it can serve as a stable fingerprint.
func normMsg(s string) string {
	if i := strings.Index(s, ": "); i >= 0 && strings.Contains(s[:i], ".go:") {
		s = s[i+2:]
	}
	if len(s) > 90 {
		s = s[:90]
	}
	return s
}
