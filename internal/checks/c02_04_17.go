package checks

import (
	"fmt"
	"strings"

	"github.com/goplus/gogen/verif/internal/drive"
	"github.com/goplus/gogen/verif/internal/gen"
	"github.com/goplus/gogen/verif/internal/h"
)

var c02def = &atomCheckDef{id: "C02", cats: allCats, cfgs: []string{"default"}, per: 1, judge: judgeC02}
var c03def = &atomCheckDef{id: "C03", cats: allCats, cfgs: []string{"default"}, per: 1, judge: judgeC03}
var c04def = &atomCheckDef{id: "C04", cats: []string{"operator", "shift", "conv", "builtin", "compare", "constgroup"}, cfgs: []string{"default"}, per: 1, judge: judgeC04}
var c17def = &atomCheckDef{id: "C17", cats: allCats, cfgs: []string{"default", "xgo", "bare"}, per: 1, judge: judgeC17, noComp: true}

func nestedConstN(tier string) int {
	if tier == "thorough" {
		return 50000
	}
	return 2000
}

func runNestedConst(tier string, seed uint64, i int) []h.Result {
	r := h.NewRand(seed, 404, uint64(i))
	e := gen.NestedConst(r.Intn, 1+r.Intn(5))
	var a gen.Atom
	switch r.Intn(3) {
	case 0:
		a = gen.Atom{Cat: "nestedconst", Stmt: "_ = " + e}
	case 1:
		a = gen.Atom{Cat: "nestedconst", Stmt: "const k = " + e + "; _ = k"}
	default:
		a = gen.Atom{Cat: "nestedconst", Stmt: "var v = " + e + "; _ = v"}
	}
	ac := atomCase{a, "default"}
	o := runAtom(ac, false)
	res := judgeC04(atomKey(ac), o)
	res.Tag("cat:nestedconst")
	if verbose() {
		res.Input = a.Program()
		res.Detail += "\n" + o.Summary()
	}
	return []h.Result{res}
}

func progN(tier string) int {
	if tier == "thorough" {
		return 20000
	}
	return 800
}

func validProg(id string, seed uint64, i int) progSpec {
	nc := len(Corpus())
	if i < nc {
		c := Corpus()[i]
		return progSpec{kind: "corpus", src: []string{c.Src}, key: "corpus " + c.Name}
	}
	p := mkProg(id, seed, i, false, i%5 == 0)
	if i%3 == 1 {
		p.src, p.names = splitFiles(p.src[0], h.NewRand(seed, 7, uint64(i)))
		p.kind = "multi"
		p.key = fmt.Sprintf("generated multi-file program seed=%d case=%d (%d files)", seed, i, len(p.src))
	}
	return p
}

func c02Extra(tier string, seed uint64, i int) []h.Result {
	p := validProg("C02", seed, i)
	o := runProg(p, drive.Opt{})
	r := judgeC02(p.key, o)
	if p.kind == "corpus" && r.Verdict == h.Violated && r.Kind == "rejected-valid" && strings.Contains(o.Msg, "could not import") {
		r.Verdict, r.Kind = h.Skip, "corpus-program-needs-a-test-importer"
	}
	progResultExtras(&r, p, o)
	return []h.Result{r}
}

func c03Extra(tier string, seed uint64, i int) []h.Result {
	p := validProg("C03", seed, i)
	o := runProg(p, drive.Opt{})
	r := judgeC03(p.key, o)
	progResultExtras(&r, p, o)
	return []h.Result{r}
}

// ---- C17 scaling series: cost per input size must stay (near) linear

type scaleFamily struct {
	name  string
	gen   func(n int) string // statement(s) of func atom
	decl  func(n int) string // package-level declarations that grow with n (optional)
	sizes []int              // default 100, 1000, 10000
}

// latticeDecl: 2 struct types per level, each embedding (by pointer) both types of the next level: 2n+2 types, 2^n
// embedding paths. Member lookup must visit each type once, not each path.
func latticeDecl(n int) string {
	var sb strings.Builder
	for k := 0; k < n; k++ {
		fmt.Fprintf(&sb, "type LA%d struct {\n\t*LA%d\n\t*LB%d\n}\ntype LB%d struct {\n\t*LA%d\n\t*LB%d\n}\n", k, k+1, k+1, k, k+1, k+1)
	}
	fmt.Fprintf(&sb, "type LA%d struct{ qa int }\ntype LB%d struct{ qb int }\ntype LX struct{ lx int }\ntype LTop struct {\n\t*LA0\n\tLX\n}\nvar ltop LTop\n", n, n)
	return sb.String()
}

var c17Scale = []scaleFamily{
	{name: "string literal of n bytes", gen: func(n int) string { return "_ = \"" + strings.Repeat("a", n) + "\"" }},
	{name: "integer literal of n digits", gen: func(n int) string { return "const k = " + strings.Repeat("7", n) + "; _ = k > 0" }},
	{name: "parenthesised nesting depth n", gen: func(n int) string { return "_ = " + strings.Repeat("(", n) + "i" + strings.Repeat(" + 1)", n) }},
	{name: "left-associated chain of n additions", gen: func(n int) string { return "_ = i" + strings.Repeat(" + i", n) }},
	{name: "constant chain of n additions", gen: func(n int) string { return "_ = 1" + strings.Repeat(" + 1", n) }},
	{name: "constant string concatenation of n pieces", gen: func(n int) string { return "_ = \"a\"" + strings.Repeat(" + \"a\"", n) }},
	{name: "call with n arguments", gen: func(n int) string { return "_ = vari(" + strings.TrimSuffix(strings.Repeat("i, ", n), ", ") + ")" }},
	{name: "slice literal with n elements", gen: func(n int) string { return "_ = []int{" + strings.TrimSuffix(strings.Repeat("1, ", n), ", ") + "}" }},
	{name: "map literal with n entries", gen: func(n int) string {
		var sb strings.Builder
		sb.WriteString("_ = map[int]int{")
		for k := 0; k < n; k++ {
			fmt.Fprintf(&sb, "%d: %d, ", k, k)
		}
		return sb.String() + "}"
	}},
	{name: "n statements", gen: func(n int) string { return strings.TrimSuffix(strings.Repeat("i++; ", n), "; ") }},
	{name: "n nested blocks", gen: func(n int) string { return strings.Repeat("{ ", n) + "i++" + strings.Repeat(" }", n) }},
	{name: "n nested ifs", gen: func(n int) string { return strings.Repeat("if b { ", n) + "i++" + strings.Repeat(" }", n) }},
	{name: "n labels", gen: func(n int) string {
		var sb strings.Builder
		for k := 0; k < n; k++ {
			fmt.Fprintf(&sb, "L%d: for { break L%d }; ", k, k)
		}
		return strings.TrimSuffix(sb.String(), "; ")
	}},
	{name: "n local declarations", gen: func(n int) string {
		var sb strings.Builder
		for k := 0; k < n; k++ {
			fmt.Fprintf(&sb, "x%d := %d; _ = x%d; ", k, k, k)
		}
		return strings.TrimSuffix(sb.String(), "; ")
	}},
	{name: "shift by a huge constant", gen: func(n int) string { return fmt.Sprintf("_ = 1 << %d", n*1000000) }},
	{name: "selector chain of n members", gen: func(n int) string { return "var r Rec; _ = r" + strings.Repeat(".Next", n) }},
	{name: "member found after an embedding lattice of depth n (2^n paths)", gen: func(n int) string { return "_ = ltop.lx" }, decl: latticeDecl, sizes: []int{10, 18, 26}},
	{name: "member missing from an embedding lattice of depth n (2^n paths)", gen: func(n int) string { return "_ = ltop.nosuch" }, decl: latticeDecl, sizes: []int{10, 18, 26}},
	{name: "member at the bottom of an embedding lattice of depth n", gen: func(n int) string { return "_ = ltop.qb" }, decl: latticeDecl, sizes: []int{10, 18, 26}},
	{name: "method promoted through an embedding chain of depth n", gen: func(n int) string { return "var c0 CH0; _ = c0.Deep()" }, decl: func(n int) string {
		var sb strings.Builder
		for k := 0; k < n; k++ {
			fmt.Fprintf(&sb, "type CH%d struct{ CH%d }\n", k, k+1)
		}
		fmt.Fprintf(&sb, "type CH%d struct{}\nfunc (CH%d) Deep() int { return 1 }\n", n, n)
		return sb.String()
	}, sizes: []int{50, 500, 5000}},
	{name: "last field of a struct with n fields", gen: func(n int) string { return fmt.Sprintf("var w Wide; _ = w.F%d", n-1) }, decl: func(n int) string {
		var sb strings.Builder
		sb.WriteString("type Wide struct {\n")
		for k := 0; k < n; k++ {
			fmt.Fprintf(&sb, "\tF%d int\n", k)
		}
		return sb.String() + "}\n"
	}},
	{name: "field promoted from the last of n embedded structs", gen: func(n int) string { return fmt.Sprintf("var w WideE; _ = w.G%d", n-1) }, decl: func(n int) string {
		var sb strings.Builder
		for k := 0; k < n; k++ {
			fmt.Fprintf(&sb, "type WE%d struct{ G%d int }\n", k, k)
		}
		sb.WriteString("type WideE struct {\n")
		for k := 0; k < n; k++ {
			fmt.Fprintf(&sb, "\tWE%d\n", k)
		}
		return sb.String() + "}\n"
	}, sizes: []int{30, 300, 3000}},
	{name: "last method of an interface with n methods", gen: func(n int) string { return fmt.Sprintf("var w WideI; w.M%d()", n-1) }, decl: func(n int) string {
		var sb strings.Builder
		sb.WriteString("type WideI interface {\n")
		for k := 0; k < n; k++ {
			fmt.Fprintf(&sb, "\tM%d()\n", k)
		}
		return sb.String() + "}\n"
	}, sizes: []int{30, 300, 3000}},
}

func c17ScaleN(string) int { return len(c17Scale) }

func c17ScaleRun(tier string, seed uint64, i int) []h.Result {
	fam := c17Scale[i]
	res := h.Result{Key: "scaling: " + fam.name, Verdict: h.Held, NonTrivial: true}
	sizes := []int{100, 1000, 10000}
	if fam.sizes != nil {
		sizes = fam.sizes
	}
	drive.Build(sharedUniverse(), []string{gen.Atom{Stmt: "_ = i"}.Program()}, drive.Opt{NoCompare: true, NoRef: true}) // warm-up (importer)
	var allocs []uint64
	var cpus []float64
	for _, n := range sizes {
		a := gen.Atom{Cat: "scale", Decl: "type Rec struct{ Next *Rec }", Stmt: fam.gen(n)}
		if fam.decl != nil {
			a.Decl += "\n" + fam.decl(n)
		}
		src := a.Program()
		o := drive.Build(sharedUniverse(), []string{src}, drive.Opt{NoCompare: true, NoRef: true, NoWrite: true})
		if o.Status == "crash" {
			res.Verdict, res.Kind, res.Detail = h.Violated, "crash: "+o.CrashSig, fmt.Sprintf("n=%d: %s\n%s", n, o.Msg, o.Stack)
			return []h.Result{res}
		}
		if o.Status == "fe" {
			res.Verdict, res.Kind, res.Detail = h.Skip, "front-end", o.Msg
			return []h.Result{res}
		}
		allocs = append(allocs, o.BuildAlloc)
		cpus = append(cpus, o.BuildCPU)
		res.Count("operations", int64(o.Ops))
	}
	res.Detail = fmt.Sprintf("n=%v: allocated %d / %d / %d bytes, cpu %.3f / %.3f / %.3f s", sizes, allocs[0], allocs[1], allocs[2], cpus[0], cpus[1], cpus[2])
	const slack = 8 << 20
	for k := 1; k < len(sizes); k++ {
		if allocs[k] > 20*allocs[k-1]+slack {
			res.Verdict, res.Kind = h.Violated, "superlinear-allocation"
			res.Detail = fmt.Sprintf("allocation grows faster than 20x per 10x input (%d -> %d bytes for n=%d -> %d); ", allocs[k-1], allocs[k], sizes[k-1], sizes[k]) + res.Detail
		}
	}
	if res.Verdict == h.Held && cpus[2] > 5 {
		res.Verdict, res.Kind = h.Violated, "slow"
		res.Detail = fmt.Sprintf("more than 5 CPU-s for n=%d; ", sizes[2]) + res.Detail
	}
	res.Count("scaling_families", 1)
	return []h.Result{res}
}

func init() {
	c17def.extraN, c17def.extraRun = c17ScaleN, c17ScaleRun
	c02def.extraN, c02def.extraRun = progN, c02Extra
	c03def.extraN, c03def.extraRun = progN, c03Extra
	c04def.extraN = nestedConstN
	c04def.extraRun = runNestedConst
	h.Register(&h.Check{
		ID: "C02", Level: "exploration",
		Rule: "valid programs only (go/types accepts the source): atom layer = the catalogue atoms Go accepts (this is where spurious rejections are enumerated), program layer = type-directed random programs and the corpus; " +
			"the builder must report no error and the canonical typed dump (AST without parentheses/positions, literals by value, identifiers by the identity of the object go/types resolves them to, imports by path) of the output " +
			"must equal that of the source; package-level order modulo permutation except initialisation order. non-trivial = valid program driven to a verdict; distinct by program text",
		Assume: []string{"go/types resolves identifiers on both sides", "equivalent spellings the builder API cannot choose between are normalised (see DESIGN.md C02 guards)"},
		MinNT:  100, Plan: c02def.Plan, Run: c02def.Run, Describe: c02def.Describe,
	})
	h.Register(&h.Check{
		ID: "C03", Level: "exploration",
		Rule: "for every accepted valid program whose dump equals the source's, every value sub-expression recorded at the builder's API boundary (CodeBuilder.Get(-1).Type after the expression completed) is compared with the " +
			"context-free go/types type (types.Eval at the node's position in the re-checked OUTPUT) of the corresponding emitted node, by cross-universe type identity; comma-ok forms compare the value component; refType compares the referent. " +
			"non-trivial = at least one type comparison made; distinct by program text",
		Assume: []string{"node correspondence comes from equal canonical dumps", "types.Eval gives the context-free (untyped-preserving) type"},
		MinNT:  100, Plan: c03def.Plan, Run: c03def.Run, Describe: c03def.Describe,
	})
	h.Register(&h.Check{
		ID: "C04", Level: "exploration",
		Rule: "operator x constant operand x constant operand (untyped kinds at boundary values, typed constants of every basic kind, > 64-bit), shifts with counts 0..2^64, constant-capable builtins (len/cap/min/max/complex/real/imag/unsafe.*), " +
			"conversions of constants, plus seed-generated nested constant expressions to depth 5; the builder's CVal after each sub-expression is compared exactly (go/constant, arbitrary precision) with go/types' value of the emitted node, " +
			"presence included (constant iff Go constant); an expression Go rejects that the builder accepted with a value is a violation. non-trivial = at least one constant comparison; distinct by expression text",
		Assume: []string{"go/constant is exact", "go/types decides which expressions are constant"},
		MinNT:  100, Plan: c04def.Plan, Run: c04def.Run, Describe: c04def.Describe,
	})
	h.Register(&h.Check{
		ID: "C17", Level: "exploration",
		Rule: "every catalogue atom (well-formed operation sequences on operands of arbitrary kind, valid or not) under three configurations (default with recorder+interpreter; XGo builtin; bare: no recorder, no interpreter, no big-number types), " +
			"one isolated case per atom: recovered panics are classified by dynamic type (runtime.Error = fault; error/string values = reported error), fatal errors and resource overruns (heap > 3 GiB, > 60 CPU-s for one atom) are attributed " +
			"through the worker journal; plus 16 scaling series (literal length, parenthesis/block/if nesting depth, operator chains incl. constant folding chains, argument / element / entry counts, statements, labels, declarations, selector chains, huge shift counts at n = 10^2, 10^3, 10^4): bytes allocated and CPU spent inside the builder operations (parsing and printing excluded) must not grow more than 20x per 10x of input (+8 MiB) and stay under 5 CPU-s. non-trivial = builder reached; distinct by atom+configuration",
		Assume: []string{"runtime.Error marks a run-time fault; any other panic value is a reported error per the property's own observation list", "operation sequences are well formed (a front end cannot underflow the stack)"},
		MinNT:  100, Plan: c17def.Plan, Run: c17def.Run, Describe: c17def.Describe,
	})
	_ = fmt.Sprint
	_ = drive.Opt{}
}
