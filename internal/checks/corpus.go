package checks

import (
	"fmt"
	"os"
	"path/filepath"
	"sort"
	"strings"

	"github.com/goplus/gogen/verif/internal/drive"
	"github.com/goplus/gogen/verif/internal/h"
)

type corpusProg struct {
	Name string
	Src  string
}

var corpusCache []corpusProg

// Corpus loads the programs under /verif/corpus (lifted from the repository's test expectations + hand-written seeds).
func Corpus() []corpusProg {
	if corpusCache != nil {
		return corpusCache
	}
	files, _ := filepath.Glob(filepath.Join(h.Root(), "corpus", "*.go.txt"))
	sort.Strings(files)
	for _, f := range files {
		b, err := os.ReadFile(f)
		if err == nil {
			corpusCache = append(corpusCache, corpusProg{filepath.Base(f), string(b)})
		}
	}
	return corpusCache
}

// CorpusReport is a self-validation command of the front end (not a property check): vcheck corpus [-v]
func CorpusReport(verbose bool) {
	u := sharedUniverse()
	stats := map[string]int{}
	reasons := map[string]int{}
	var ncmp, npairs int
	for _, p := range Corpus() {
		o := drive.Build(u, []string{p.Src}, drive.Opt{})
		st := o.Status
		detail := o.Msg
		if !o.SrcValid {
			st = "srcinvalid/" + st
			if len(o.SrcErrs) > 0 {
				detail = o.SrcErrs[0] + " | " + detail
			}
		} else if o.Status == "accepted" {
			switch {
			case len(o.OutErrs) > 0:
				st, detail = "OUT-ILLTYPED", o.OutErrs[0]
			case len(o.DumpDiffs) > 0:
				st, detail = "DUMP-DIFF", o.DumpDiffs[0]
			case len(o.TypeDiffs) > 0:
				st, detail = "TYPE-DIFF", fmt.Sprint(o.TypeDiffs[0])
			case len(o.CValDiffs) > 0:
				st, detail = "CVAL-DIFF", fmt.Sprint(o.CValDiffs[0])
			default:
				st = "same"
			}
			ncmp += o.NCmpType
			npairs += o.NExprPairs
		}
		stats[st]++
		if st != "same" {
			k := st + ": " + detail
			if len(k) > 110 {
				k = k[:110]
			}
			reasons[k]++
			if verbose {
				fmt.Printf("--- %s %s\n    %s\n", p.Name, st, strings.ReplaceAll(detail, "\n", "\n    "))
			}
		}
	}
	fmt.Println(stats, "expr pairs:", npairs, "type comparisons:", ncmp)
	var ks []string
	for k := range reasons {
		ks = append(ks, k)
	}
	sort.Slice(ks, func(i, j int) bool { return reasons[ks[i]] > reasons[ks[j]] })
	for _, k := range ks {
		fmt.Printf("%4d %s\n", reasons[k], k)
	}
}
