package checks

import (
	"fmt"
	"runtime"
	"sort"
	"strings"
	"sync"
	"sync/atomic"

	"github.com/goplus/gogen/verif/internal/drive"
	"github.com/goplus/gogen/verif/internal/h"
	"github.com/goplus/gogen/verif/internal/ref"
)

// C18 — independent packages can be built concurrently without interference (DESIGN.md §2 C18).
// Runs under the race-detector build; the supervisor scans the race logs of every worker.

var (
	c18Mu        sync.Mutex
	c18Universes []*ref.Universe // one importer per goroutine slot, created once per worker process
)

func c18Universe(slot int) *ref.Universe {
	c18Mu.Lock()
	defer c18Mu.Unlock()
	for len(c18Universes) <= slot {
		u := newFixtureUniverse()
		addXGoFixtures(u)
		c18Universes = append(c18Universes, u)
	}
	return c18Universes[slot]
}

func c18N(tier string) int {
	if tier == "thorough" {
		return 320
	}
	return 32
}

type c18Event struct {
	g      int
	phase  string
	t0, t1 int64
}

func c18Run(tier string, seed uint64, i int) []h.Result {
	r := h.NewRand(seed, 18, uint64(i))
	G := []int{2, 4, 8, 8, 12}[r.Intn(5)]
	procs := []int{2, 4, 16}[r.Intn(3)]
	old := runtime.GOMAXPROCS(procs)
	defer runtime.GOMAXPROCS(old)
	res := h.Result{Key: fmt.Sprintf("round seed=%d case=%d goroutines=%d GOMAXPROCS=%d", seed, i, G, procs), Verdict: h.Held}
	progs := make([]c15Prog, G)
	opts := make([]drive.Opt, G)
	for g := 0; g < G; g++ {
		progs[g] = c15Program(seed, i*16+g)
		opts[g] = drive.Opt{NoCompare: true, FileNames: progs[g].names, PkgPath: progs[g].path}
		if r.Chance(20) && progs[g].path == "" {
			opts[g].XGo = true
		}
		if r.Chance(15) {
			opts[g].Bare = true
		}
	}
	// sequential baseline, each program with the importer of its own slot
	base := make([]string, G)
	for g := 0; g < G; g++ {
		o := drive.Build(c18Universe(g), progs[g].srcs, opts[g])
		base[g] = c18FP(o)
	}
	var clock atomic.Int64
	var evMu sync.Mutex
	var events []c18Event
	got := make([]string, G)
	crashes := make([]string, G)
	var wg sync.WaitGroup
	start := make(chan struct{})
	for g := 0; g < G; g++ {
		wg.Add(1)
		gr := h.NewRand(seed, 1818, uint64(i), uint64(g))
		go func(g int) {
			defer wg.Done()
			defer func() {
				if e := recover(); e != nil {
					crashes[g] = fmt.Sprint(e)
				}
			}()
			<-start
			opt := opts[g]
			opt.AfterOp = func() { // the real suspension points: between builder calls
				if gr.Chance(8) {
					runtime.Gosched()
				}
			}
			t0 := clock.Add(1)
			o := drive.Build(c18Universe(g), progs[g].srcs, opt)
			t1 := clock.Add(1)
			got[g] = c18FP(o)
			evMu.Lock()
			events = append(events, c18Event{g, "build+write:" + o.Status, t0, t1})
			evMu.Unlock()
		}(g)
	}
	close(start)
	wg.Wait()
	overlaps := 0
	for a := range events {
		for b := a + 1; b < len(events); b++ {
			if events[a].t0 < events[b].t1 && events[b].t0 < events[a].t1 {
				overlaps++
			}
		}
	}
	res.Count("concurrent_builds", int64(G))
	res.Count("overlapping_build_pairs", int64(overlaps))
	res.NonTrivial = overlaps > 0
	var diffs []string
	for g := 0; g < G; g++ {
		if crashes[g] != "" {
			diffs = append(diffs, fmt.Sprintf("goroutine %d (%s) panicked outside the build: %s", g, progs[g].key, crashes[g]))
		} else if got[g] != base[g] {
			diffs = append(diffs, fmt.Sprintf("goroutine %d (%s): concurrent %s, sequential %s", g, progs[g].key, got[g], base[g]))
		}
	}
	if len(diffs) > 0 {
		sort.Strings(diffs)
		res.Verdict, res.Kind = h.Violated, "concurrent-output-differs"
		res.Detail = strings.Join(diffs, "\n")
	} else {
		res.Detail = fmt.Sprintf("%d packages built concurrently (%d overlapping pairs), every output byte-identical to its sequential build", G, overlaps)
	}
	return []h.Result{res}
}

func c18FP(o *drive.Outcome) string {
	if o.Status != "accepted" {
		return "status:" + o.Status + ":" + normMsg(o.Msg)
	}
	return hashFiles(o)
}

func init() {
	h.Register(&h.Check{
		ID: "C18", Level: "exploration", Race: true, Workers: 4, CPULimit: 900,
		Rule: "rounds of 2-12 goroutines (GOMAXPROCS 2/4/16), each building a DIFFERENT program with its own Package, Config, operand stack and importer instance (one importer per goroutine slot; std packages type-checked from source per importer), " +
			"runtime.Gosched() injected after seed-chosen builder operations (the real suspension points between builder calls); programs: extension-package libraries with overload families, generated single- and multi-file programs, corpus programs " +
			"(enumerator loops, overloads, big-number literals, unsafe, generics), in the default, XGo-builtin and bare configurations. Oracles: (1) Go race detector — every report in the workers' race logs is a violation, de-duplicated by the pair of top frames; " +
			"(2) each package's bytes under concurrent build equal its sequential build. non-trivial = round with at least one pair of overlapping builds (logical clock); distinct by round",
		Assume: []string{"Go race detector (happens-before, reports only races that occurred in the observed schedules)", "configuration calls such as SetDebug are not part of a build and are never made concurrently"},
		MinNT:  4,
		Plan:   func(tier string, seed uint64) int { return c18N(tier) },
		Run:    c18Run,
	})
}
