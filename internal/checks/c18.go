package checks

import (
	"fmt"
	"runtime"
	"sort"
	"strings"
	"sync"
	"sync/atomic"

	"github.com/goplus/gogen/verif/internal/drive"
	"github.com/goplus/gogen/verif/internal/gen"
	"github.com/goplus/gogen/verif/internal/h"
	"github.com/goplus/gogen/verif/internal/ref"
)

// C18 — independent packages can be built concurrently without interference (DESIGN.md §2 C18).
// Runs under the race-detector build; the supervisor scans the race logs of every worker.

var (
	c18Mu        sync.Mutex
	c18Universes []*ref.Universe // one importer per goroutine slot, created once per worker process
)

func c18Universe(slot int) *ref.Universe {
	c18Mu.Lock()
	defer c18Mu.Unlock()
	for len(c18Universes) <= slot {
		u := newFixtureUniverse()
		addXGoFixtures(u)
		c18Universes = append(c18Universes, u)
	}
	return c18Universes[slot]
}

// Case layout: the first c18Sweeps(tier) cases are "sweep" rounds, the rest are "mixed" rounds.
//
//	sweep: for every program of a list (a chunk of the corpus plus a stratified sample of catalogue atoms, valid and
//	       invalid) 4-8 goroutines build that SAME program at the same moment, each with its own importer, twice. Any
//	       package-level state the program's code path writes is then written by several goroutines with nothing
//	       ordering them. (A first version let each goroutine run through the list in a different rotation; the
//	       sync.Pools inside fmt and the printer order builds that are far apart in time, so the race detector stayed
//	       silent on a seeded shared scratch slice. Lock step does not depend on that.)
//	mixed: every goroutine builds a different program (the original workload).
const c18CorpusChunks = 8

func c18Sweeps(tier string) int {
	if tier == "thorough" {
		return 3*c18CorpusChunks + 60
	}
	return c18CorpusChunks
}

func c18N(tier string) int {
	if tier == "thorough" {
		return c18Sweeps(tier) + 240
	}
	return c18Sweeps(tier) + 24
}

type c18Event struct {
	g      int
	phase  string
	t0, t1 int64
}

type c18Item struct {
	key string
	src []string
	opt drive.Opt
}

var (
	c18AtomOnce sync.Once
	c18AllAtoms []gen.Atom
)

// c18SweepList is the program list of sweep round i.
func c18SweepList(tier string, seed uint64, i int) []c18Item {
	var items []c18Item
	nAtoms := 40
	if i < 3*c18CorpusChunks {
		all := Corpus()
		chunk := i % c18CorpusChunks
		for k, c := range all {
			if k%c18CorpusChunks == chunk {
				items = append(items, c18Item{key: "corpus " + c.Name, src: []string{c.Src}})
			}
		}
	} else {
		nAtoms = 150
	}
	c18AtomOnce.Do(func() {
		for _, c := range allCats {
			c18AllAtoms = append(c18AllAtoms, catalogues()[c]...)
		}
	})
	r := h.NewRand(seed, 1801, uint64(i))
	pick := h.Sample(len(c18AllAtoms), func(k int) string { return c18AllAtoms[k].Strat }, 1, h.Mix(seed, uint64(i)))
	perm := r.Perm(len(pick))
	shuffled := make([]int, len(pick))
	for a, b := range perm {
		shuffled[a] = pick[b]
	}
	pick = shuffled
	if len(pick) > nAtoms {
		pick = pick[:nAtoms]
	}
	for _, k := range pick {
		a := c18AllAtoms[k]
		cfg := []string{"default", "default", "xgo", "bare"}[r.Intn(4)]
		items = append(items, c18Item{key: "[" + cfg + "] " + a.Text(), src: []string{a.Program()}, opt: cfgOpt(cfg)})
	}
	return items
}

// c18FullFP fingerprints everything the monitors observe of one build: status, message, bytes, and the type /
// constant / declaration disagreements with go/types (so a wrong folded constant shows even when the text is unchanged).
func c18FullFP(o *drive.Outcome) string {
	if o.Status != "accepted" {
		return "status:" + o.Status + ":" + normMsg(o.Msg)
	}
	return hashFiles(o) + fmt.Sprintf(" out-errs=%d type-diffs=%v cval-diffs=%v decl-diffs=%v dump-diffs=%d", len(o.OutErrs), o.TypeDiffs, o.CValDiffs, o.DeclDiffs, len(o.DumpDiffs))
}

func c18Sweep(tier string, seed uint64, i int) []h.Result {
	r := h.NewRand(seed, 1802, uint64(i))
	G := []int{4, 4, 6, 8}[r.Intn(4)]
	procs := []int{8, 16}[r.Intn(2)] // at least one P per goroutine: fewer accidental happens-before edges through per-P sync.Pools (fmt, printer)
	old := runtime.GOMAXPROCS(procs)
	defer runtime.GOMAXPROCS(old)
	items := c18SweepList(tier, seed, i)
	const reps = 2
	res := h.Result{Key: fmt.Sprintf("sweep seed=%d case=%d goroutines=%d GOMAXPROCS=%d programs=%d", seed, i, G, procs, len(items)), Verdict: h.Held}
	us := make([]*ref.Universe, G)
	for g := range us {
		us[g] = c18Universe(g)
	}
	var diffs []string
	overlaps, steps := 0, 0
	var clock atomic.Int64
	for k, it := range items {
		base := c18FullFP(drive.Build(us[0], it.src, it.opt))
		for rep := 0; rep < reps; rep++ {
			// lock step: all goroutines build program k at the same moment, nothing synchronises them inside the build
			got := make([]string, G)
			crashes := make([]string, G)
			t0s, t1s := make([]int64, G), make([]int64, G)
			var wg sync.WaitGroup
			start := make(chan struct{})
			for g := 0; g < G; g++ {
				wg.Add(1)
				go func(g int) {
					defer wg.Done()
					defer func() {
						if e := recover(); e != nil {
							crashes[g] = fmt.Sprint(e)
						}
					}()
					<-start
					t0s[g] = clock.Add(1)
					o := drive.Build(us[g], it.src, it.opt)
					t1s[g] = clock.Add(1)
					got[g] = c18FullFP(o)
				}(g)
			}
			close(start)
			wg.Wait()
			steps++
			for a := 0; a < G; a++ {
				for b := a + 1; b < G; b++ {
					if t0s[a] < t1s[b] && t0s[b] < t1s[a] {
						overlaps++
					}
				}
			}
			for g := 0; g < G; g++ {
				if crashes[g] != "" {
					diffs = append(diffs, fmt.Sprintf("program %d (%s) goroutine %d panicked outside the build: %s", k, it.key, g, crashes[g]))
				} else if got[g] != base {
					diffs = append(diffs, fmt.Sprintf("program %d (%s) goroutine %d: concurrent %s, sequential %s", k, it.key, g, got[g], base))
				}
			}
		}
	}
	res.Count("concurrent_builds", int64(G*steps))
	res.Count("sweep_programs", int64(len(items)))
	res.Count("lockstep_steps", int64(steps))
	res.Count("overlapping_build_pairs", int64(overlaps))
	res.NonTrivial = overlaps > 0
	if len(diffs) > 0 {
		sort.Strings(diffs)
		if len(diffs) > 12 {
			diffs = append(diffs[:12], fmt.Sprintf("... and %d more", len(diffs)-12))
		}
		res.Verdict, res.Kind = h.Violated, "concurrent-output-differs"
		res.Detail = strings.Join(diffs, "\n")
	} else {
		res.Detail = fmt.Sprintf("%d programs, each built %d times by %d goroutines in lock step (%d overlapping build pairs); every outcome (bytes, types, constants) equals the sequential one", len(items), reps, G, overlaps)
	}
	return []h.Result{res}
}

func c18Run(tier string, seed uint64, i int) []h.Result {
	if i < c18Sweeps(tier) {
		return c18Sweep(tier, seed, i)
	}
	r := h.NewRand(seed, 18, uint64(i))
	G := []int{2, 4, 8, 8, 12}[r.Intn(5)]
	procs := []int{2, 4, 16}[r.Intn(3)]
	old := runtime.GOMAXPROCS(procs)
	defer runtime.GOMAXPROCS(old)
	res := h.Result{Key: fmt.Sprintf("round seed=%d case=%d goroutines=%d GOMAXPROCS=%d", seed, i, G, procs), Verdict: h.Held}
	progs := make([]c15Prog, G)
	opts := make([]drive.Opt, G)
	for g := 0; g < G; g++ {
		progs[g] = c15SrcProgram(seed, i*16+g)
		opts[g] = drive.Opt{NoCompare: true, FileNames: progs[g].names, PkgPath: progs[g].path}
		if r.Chance(20) && progs[g].path == "" {
			opts[g].XGo = true
		}
		if r.Chance(15) {
			opts[g].Bare = true
		}
	}
	// sequential baseline, each program with the importer of its own slot
	base := make([]string, G)
	for g := 0; g < G; g++ {
		o := drive.Build(c18Universe(g), progs[g].srcs, opts[g])
		base[g] = c18FP(o)
	}
	var clock atomic.Int64
	var evMu sync.Mutex
	var events []c18Event
	got := make([]string, G)
	crashes := make([]string, G)
	var wg sync.WaitGroup
	start := make(chan struct{})
	for g := 0; g < G; g++ {
		wg.Add(1)
		gr := h.NewRand(seed, 1818, uint64(i), uint64(g))
		go func(g int) {
			defer wg.Done()
			defer func() {
				if e := recover(); e != nil {
					crashes[g] = fmt.Sprint(e)
				}
			}()
			<-start
			opt := opts[g]
			opt.AfterOp = func() { // the real suspension points: between builder calls
				if gr.Chance(8) {
					runtime.Gosched()
				}
			}
			t0 := clock.Add(1)
			o := drive.Build(c18Universe(g), progs[g].srcs, opt)
			t1 := clock.Add(1)
			got[g] = c18FP(o)
			evMu.Lock()
			events = append(events, c18Event{g, "build+write:" + o.Status, t0, t1})
			evMu.Unlock()
		}(g)
	}
	close(start)
	wg.Wait()
	overlaps := 0
	for a := range events {
		for b := a + 1; b < len(events); b++ {
			if events[a].t0 < events[b].t1 && events[b].t0 < events[a].t1 {
				overlaps++
			}
		}
	}
	res.Count("concurrent_builds", int64(G))
	res.Count("overlapping_build_pairs", int64(overlaps))
	res.NonTrivial = overlaps > 0
	var diffs []string
	for g := 0; g < G; g++ {
		if crashes[g] != "" {
			diffs = append(diffs, fmt.Sprintf("goroutine %d (%s) panicked outside the build: %s", g, progs[g].key, crashes[g]))
		} else if got[g] != base[g] {
			diffs = append(diffs, fmt.Sprintf("goroutine %d (%s): concurrent %s, sequential %s", g, progs[g].key, got[g], base[g]))
		}
	}
	if len(diffs) > 0 {
		sort.Strings(diffs)
		res.Verdict, res.Kind = h.Violated, "concurrent-output-differs"
		res.Detail = strings.Join(diffs, "\n")
	} else {
		res.Detail = fmt.Sprintf("%d packages built concurrently (%d overlapping pairs), every output byte-identical to its sequential build", G, overlaps)
	}
	return []h.Result{res}
}

func c18FP(o *drive.Outcome) string {
	if o.Status != "accepted" {
		return "status:" + o.Status + ":" + normMsg(o.Msg)
	}
	return hashFiles(o)
}

func init() {
	h.Register(&h.Check{
		ID: "C18", Level: "exploration", Race: true, Workers: 4, CPULimit: 900,
		Rule: "SWEEP rounds: for every program of a list (one eighth of the 269-program corpus plus 40 stratified catalogue atoms, valid and invalid, in the default/XGo/bare configurations; thorough adds 60 rounds of 150 atoms) 4-8 goroutines build that SAME program in lock step, twice, each with its own importer and nothing synchronising them inside the build, so every package-level variable the program's code path writes is written by several goroutines at once; outcome fingerprint = bytes + type/constant/declaration disagreements with go/types. MIXED rounds: rounds of 2-12 goroutines (GOMAXPROCS 2/4/16), each building a DIFFERENT program with its own Package, Config, operand stack and importer instance (one importer per goroutine slot; std packages type-checked from source per importer), " +
			"runtime.Gosched() injected after seed-chosen builder operations (the real suspension points between builder calls); programs: extension-package libraries with overload families, generated single- and multi-file programs, corpus programs " +
			"(enumerator loops, overloads, big-number literals, unsafe, generics), in the default, XGo-builtin and bare configurations. Oracles: (1) Go race detector — every report in the workers' race logs is a violation, de-duplicated by the pair of top frames; " +
			"(2) each package's bytes under concurrent build equal its sequential build. non-trivial = round with at least one pair of overlapping builds (logical clock); distinct by round",
		Assume: []string{"Go race detector (happens-before, reports only races that occurred in the observed schedules)", "configuration calls such as SetDebug are not part of a build and are never made concurrently"},
		MinNT:  4,
		Plan:   func(tier string, seed uint64) int { return c18N(tier) },
		Run:    c18Run,
	})
}
