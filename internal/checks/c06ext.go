package checks

import (
	"fmt"
	"strings"

	"github.com/goplus/gogen/verif/internal/h"
	"github.com/goplus/gogen/verif/internal/ref"
)

// C06, overloaded OPERATORS, ASSIGNMENT OPERATORS and TYPE CASTS. A named type V with methods XGo_<Op>__k makes `v op x`
// an overloaded call; (*V).XGo_<Op>Assign__k does the same for `v op= x`; functions V_Cast__k make `V(args)` one when the
// arguments are not convertible to V by Go's own rules. Same model as for functions: the first candidate go/types accepts.

var c06OpParams = []string{"b V", "b int", "b string", "b float64", "b any", "b *V", "b []int", "b MyN", "b int8", "b ...int", "b error", "b func(int)", "b uint8", "b bool", "b W", "b rune", "b map[string]int"}

var c06OpArgs = []string{"1", `"s"`, "2.5", "i", "s", "f64", "nil", "sl", "func(int) {}", "&i", "e", "m", "200", "'a'", "i8", "mn", "true", "1.0", "-1", "300", "1 << 40", "v", "pv", "w", "fxo.MyN(3)", "v2"}

var c06Ops = []struct{ tok, name string }{{"+", "Add"}, {"-", "Sub"}, {"*", "Mul"}, {"/", "Quo"}, {"%", "Rem"}, {"&", "And"}, {"|", "Or"}, {"^", "Xor"}, {"&^", "AndNot"},
	{"<<", "Lsh"}, {">>", "Rsh"}, {"<", "LT"}, {"<=", "LE"}, {">", "GT"}, {">=", "GE"}, {"==", "EQ"}, {"!=", "NE"}, {"&&", "LAnd"}, {"||", "LOr"}}

const c06ExtEnv = `
var (
	v   fxo.V
	v2  fxo.V
	pv  *fxo.V
	w   fxo.W
)
`

func c06ExtRun(r *h.Rand, u *ref.Universe, path string) []h.Result {
	const idx = "0123456789abcdefghijklmnopqrstuvwxyz"
	n := 1 + r.Intn(5)
	op := c06Ops[r.Intn(len(c06Ops))]
	aop := c06Ops[r.Intn(11)] // assignment operators exist for the arithmetic / bit operators only
	var sb strings.Builder
	sb.WriteString("package fxo\n\nconst XGoPackage = true\n\ntype MyN int\ntype T struct{ V int }\ntype I interface{ X() }\ntype V struct{ N int }\ntype W struct{ S string }\n")
	var osigs, asigs, csigs, onames, anames, cnames []string
	for k := 0; k < n; k++ {
		o, a := h.Pick(r, c06OpParams), h.Pick(r, c06OpParams)
		c := h.Pick(r, c06Params)
		for strings.Contains(c, "Lv") {
			c = h.Pick(r, c06Params)
		}
		osigs, asigs, csigs = append(osigs, "("+o+")"), append(asigs, "("+a+")"), append(csigs, "("+c+")")
		on, an, cn := "XGo_"+op.name+"__"+idx[k:k+1], "XGo_"+aop.name+"Assign__"+idx[k:k+1], "V_Cast__"+idx[k:k+1]
		onames, anames, cnames = append(onames, on), append(anames, an), append(cnames, cn)
		fmt.Fprintf(&sb, "type RO%d int\nfunc (a V) %s(%s) (r RO%d) { return }\nfunc (a *V) %s(%s) {}\nfunc %s(%s) (r V) { return }\n", k, on, o, k, an, a, cn, c)
	}
	src := sb.String()
	u.AddSource(path, src)
	if _, err := u.Import(path); err != nil {
		return []h.Result{{Key: "operator family " + path, Verdict: h.Skip, Kind: "fixture-invalid", Detail: err.Error() + "\n" + src}}
	}
	envPath := path
	var out []h.Result
	decl := "var v, v2 fxo.V; var pv *fxo.V; var w fxo.W; _, _, _, _ = v, v2, pv, w; "
	for _, arg := range c06OpArgs {
		if strings.ContainsAny(arg, " ") {
			arg = "(" + arg + ")"
		}
		// binary operator
		c := c06Call{over: decl + fmt.Sprintf("_ = v %s %s", op.tok, arg), names: onames, sigs: osigs}
		c.key = fmt.Sprintf("operator family %s{%s} use v %s %s", op.name, strings.Join(osigs, " ; "), op.tok, arg)
		for k := 0; k < n; k++ {
			c.direct = append(c.direct, decl+fmt.Sprintf("_ = fxo.V.%s(v, %s)", onames[k], arg)) // the builder lowers `v op x` to the method expression call
		}
		c.defStmt = func(stmt string) string { return strings.Replace(stmt, "; _ = v ", "; r := v ", 1) + "; _ = r" }
		out = append(out, c06Decide(u, envPath, src, c))
		// assignment operator
		c = c06Call{over: decl + fmt.Sprintf("v %s= %s", aop.tok, arg), names: anames, sigs: asigs}
		c.key = fmt.Sprintf("assign-operator family %s{%s} use v %s= %s", aop.name, strings.Join(asigs, " ; "), aop.tok, arg)
		for k := 0; k < n; k++ {
			c.direct = append(c.direct, decl+fmt.Sprintf("v.%s(%s)", anames[k], arg))
		}
		out = append(out, c06Decide(u, envPath, src, c))
	}
	for _, args := range c06Args {
		if strings.HasSuffix(args, "...") {
			continue
		}
		// Go's own conversion takes precedence over V_Cast
		if ck := u.Check("main", c06Prog(path, "_ = fxo.V("+args+")")); len(ck.Errs) == 0 {
			continue
		}
		c := c06Call{over: "_ = fxo.V(" + args + ")", names: cnames, sigs: csigs, defStmt: c06Define}
		c.key = fmt.Sprintf("cast family {%s} use fxo.V(%s)", strings.Join(csigs, " ; "), args)
		for k := 0; k < n; k++ {
			c.direct = append(c.direct, "_ = fxo."+cnames[k]+"("+args+")")
		}
		out = append(out, c06Decide(u, envPath, src, c))
	}
	return out
}
