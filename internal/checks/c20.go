package checks

import (
	"fmt"
	"io"
	"os"
	"path/filepath"
	"strconv"
	"strings"
	"sync"
	"sync/atomic"
	"time"

	"github.com/anishathalye/porcupine"
	"github.com/goplus/gogen/packages/cache"
	"github.com/goplus/gogen/verif/internal/h"
)

// C20 — the export-data cache never serves stale data and survives save/load (DESIGN.md §2 C20).
//
// Observation points: a stub `go` first on PATH (lists exactly the requested packages, stamps every export file
// with the fingerprint vector it saw), a scripted PkgHash, Find results and ListTimes deltas.
// Oracle: executable reference model of the property statement; porcupine for concurrent histories.

var c20PathOnce sync.Once

func c20Setup() {
	c20PathOnce.Do(func() {
		dir := filepath.Join(h.Scratch(), fmt.Sprintf("c20bin.%d", os.Getpid()))
		os.MkdirAll(dir, 0o755)
		exe, _ := os.Executable()
		stub := filepath.Join(filepath.Dir(exe), "stubgo")
		if v := os.Getenv("VERIF_STUBGO"); v != "" {
			stub = v
		}
		b, err := os.ReadFile(stub)
		if err != nil {
			panic("stub go binary not found (run.sh builds bin/stubgo): " + err.Error())
		}
		os.WriteFile(filepath.Join(dir, "go"), b, 0o755)
		os.Setenv("PATH", dir+":"+os.Getenv("PATH"))
	})
}

const (
	pkgA = "p/a" // deps: d/x, d/y (recorded), s/k (HashSkip)
	pkgB = "p/b" // deps: d/z
	pkgC = "p/c" // deps: d/x, d/z
	pkgD = "d/x"
	pkgY = "d/y"
	pkgZ = "d/z"
	pkgS = "s/k"
)

// Different packages record different dependency lists of different lengths (a dependency shared by two packages,
// one private to each): a mix-up between the entries of packages listed together becomes observable.
var c20Deps = map[string][]string{pkgA: {pkgD, pkgY, pkgS}, pkgB: {pkgZ}, pkgC: {pkgD, pkgZ}}

// c20World is the scripted environment of one history.
type c20World struct {
	dir     string
	mu      sync.Mutex
	epoch   map[string]int
	invalid map[string]bool
	hashLog atomic.Int64
}

func fsName(p string) string { return strings.ReplaceAll(p, "/", "_") }

func newC20World(tag string) *c20World {
	c20Setup()
	dir := filepath.Join(h.Scratch(), fmt.Sprintf("c20w.%d.%s", os.Getpid(), tag))
	os.RemoveAll(dir)
	os.MkdirAll(filepath.Join(dir, "ctl"), 0o755)
	os.MkdirAll(filepath.Join(dir, "exp"), 0o755)
	w := &c20World{dir: dir, epoch: map[string]int{}, invalid: map[string]bool{}}
	for _, p := range []string{pkgA, pkgB, pkgC, pkgD, pkgY, pkgZ, pkgS} {
		w.epoch[p] = 1
		w.writeEpoch(p, 1)
		if d := c20Deps[p]; d != nil {
			os.WriteFile(filepath.Join(dir, "ctl", fsName(p)+".deps"), []byte(strings.Join(d, " ")), 0o644)
		}
	}
	return w
}

func (w *c20World) close() { os.RemoveAll(w.dir) }

func (w *c20World) writeEpoch(p string, e int) {
	f := filepath.Join(w.dir, "ctl", fsName(p)+".epoch")
	os.WriteFile(f+".tmp", []byte(strconv.Itoa(e)), 0o644)
	os.Rename(f+".tmp", f)
}

// bump: the file the listing reads is updated first, the fingerprint the hash function reports second.
func (w *c20World) bump(p string) {
	w.mu.Lock()
	e := w.epoch[p] + 1
	w.mu.Unlock()
	w.writeEpoch(p, e)
	w.mu.Lock()
	w.epoch[p] = e
	w.mu.Unlock()
}

func (w *c20World) hash(p string, self bool) string {
	w.hashLog.Add(1)
	w.mu.Lock()
	defer w.mu.Unlock()
	if !self && p == pkgS {
		return cache.HashSkip
	}
	if self && w.invalid[p] {
		return cache.HashInvalid
	}
	return "h" + strconv.Itoa(w.epoch[p])
}

func (w *c20World) setFail(on bool) {
	f := filepath.Join(w.dir, "ctl", "fail")
	if on {
		os.WriteFile(f, nil, 0o644)
	} else {
		os.Remove(f)
	}
}

func (w *c20World) listLogLen() int {
	b, _ := os.ReadFile(filepath.Join(w.dir, "ctl", "log"))
	return strings.Count(string(b), "\n")
}

// stampNow is the stamp a listing performed now would write.
func (w *c20World) stampNow(p string) string {
	w.mu.Lock()
	defer w.mu.Unlock()
	s := fmt.Sprintf("data:%s:%d", p, w.epoch[p])
	for _, d := range c20Deps[p] {
		s += fmt.Sprintf(":%s=%d", d, w.epoch[d])
	}
	return s
}

// recordedPart drops the components of a stamp that belong to dependencies that are not recorded (HashSkip).
func recordedPart(stamp string) string {
	parts := strings.Split(stamp, ":")
	var out []string
	for _, p := range parts {
		if strings.HasPrefix(p, pkgS+"=") {
			continue
		}
		out = append(out, p)
	}
	return strings.Join(out, ":")
}

type c20Entry struct {
	self    string
	deps    map[string]string
	expGone bool // every export file of the package was deleted after the entry was recorded
}

type c20Model struct {
	entries map[string]*c20Entry
	nlist   int
}

func (m *c20Model) dirty(w *c20World, p string) bool {
	e := m.entries[p]
	if e == nil {
		return true
	}
	if e.self == cache.HashInvalid || w.hash(p, true) != e.self {
		return true
	}
	for d, hv := range e.deps {
		if w.hash(d, false) != hv {
			return true
		}
	}
	return e.expGone
}

func (m *c20Model) record(w *c20World, p string) {
	e := &c20Entry{self: w.hash(p, true), deps: map[string]string{}}
	for _, d := range c20Deps[p] {
		if hv := w.hash(d, false); hv != cache.HashSkip {
			e.deps[d] = hv
		}
	}
	m.entries[p] = e
}

var c20Ops = []string{"prepare(A,B,C)", "find(A)", "find(B)", "bump(A)", "bump(x)", "delexp(A)", "fail-on", "fail-off", "save+load", "invalid(A)", "bump(S)", "prepare(C,B,A)", "find(C)", "bump(y)", "bump(z)"}

const c20NOps = 15

// c20History runs one sequential history (op codes) against the cache and the model. Returns "", "" if it held.
func c20History(ops []int, tag string, res *h.Result) (kind, detail string) {
	w := newC20World(tag)
	defer w.close()
	impl := cache.New(w.hash)
	model := &c20Model{entries: map[string]*c20Entry{}}
	failing := false
	saves := 0
	var trace []string
	ctx := func() string { return strings.Join(trace, " ") }
	var caught any
	guard := func(f func()) {
		defer func() {
			if e := recover(); e != nil {
				caught = e
			}
		}()
		f()
	}
	doFind := func(p string) (string, string) {
		before := impl.ListTimes()
		expectList := model.dirty(w, p)
		var rc io.ReadCloser
		var err error
		guard(func() { rc, err = impl.Find(w.dir, p) })
		if caught != nil {
			return "panic", fmt.Sprintf("Find(%s) panicked: %v", p, caught)
		}
		delta := impl.ListTimes() - before
		content := ""
		if rc != nil {
			b, _ := io.ReadAll(rc)
			rc.Close()
			content = string(b)
		}
		res.Count("finds", 1)
		want := 0
		if expectList {
			want = 1
		}
		if delta != want {
			if want == 0 {
				return "relist-of-fresh-entry", fmt.Sprintf("Find(%s): entry unchanged but ListTimes grew by %d", p, delta)
			}
			return "no-relist-of-dirty-entry", fmt.Sprintf("Find(%s): entry absent/changed but ListTimes grew by %d", p, delta)
		}
		cur := w.stampNow(p)
		if expectList {
			model.nlist++
			res.Count("finds_relisted", 1)
			if failing {
				res.Count("finds_relist_failed", 1)
				if err == nil {
					return "stale-served-after-failed-relist", fmt.Sprintf("Find(%s): fingerprints changed, re-listing failed, yet Find returned err=nil with data %q (current would be %q)", p, content, cur)
				}
				return "", ""
			}
			model.record(w, p)
			if err != nil {
				return "find-error", fmt.Sprintf("Find(%s): listing succeeded but err=%v", p, err)
			}
			if content != cur {
				return "wrong-data", fmt.Sprintf("Find(%s) after re-list returned %q, current is %q", p, content, cur)
			}
			return "", ""
		}
		res.Count("finds_served_fresh", 1)
		if err != nil {
			return "find-error", fmt.Sprintf("Find(%s): fresh entry but err=%v", p, err)
		}
		if recordedPart(content) != recordedPart(cur) {
			return "stale-data", fmt.Sprintf("Find(%s) served %q without re-listing, current is %q", p, content, cur)
		}
		return "", ""
	}
	for step, op := range ops {
		trace = append(trace, c20Ops[op])
		var k, d string
		switch op {
		case 0, 11:
			before := impl.ListTimes()
			var err error
			guard(func() {
				if op == 0 {
					err = impl.Prepare(w.dir, pkgA, pkgB, pkgC)
				} else {
					err = impl.Prepare(w.dir, pkgC, pkgB, pkgA)
				}
			})
			if caught != nil {
				k, d = "panic", fmt.Sprintf("Prepare panicked: %v", caught)
				break
			}
			model.nlist++
			if impl.ListTimes()-before != 1 {
				k, d = "prepare-listtimes", "Prepare did not count one listing"
			} else if failing != (err != nil) {
				k, d = "prepare-error", fmt.Sprintf("Prepare err=%v while listing failing=%v", err, failing)
			} else if !failing {
				model.record(w, pkgA)
				model.record(w, pkgB)
				model.record(w, pkgC)
			}
		case 1:
			k, d = doFind(pkgA)
		case 2:
			k, d = doFind(pkgB)
		case 3:
			w.bump(pkgA)
		case 4:
			w.bump(pkgD)
		case 5:
			ms, _ := filepath.Glob(filepath.Join(w.dir, "exp", fsName(pkgA)+".*"))
			for _, m := range ms {
				os.Remove(m)
			}
			if e := model.entries[pkgA]; e != nil {
				e.expGone = true
			}
		case 6:
			failing = true
			w.setFail(true)
		case 7:
			failing = false
			w.setFail(false)
		case 8:
			saves++
			file := filepath.Join(w.dir, fmt.Sprintf("cache.%d.txt", saves))
			var err, err2 error
			guard(func() { err = impl.Save(file) })
			n := cache.New(w.hash)
			guard(func() { err2 = n.Load(file) })
			if caught != nil {
				k, d = "panic", fmt.Sprintf("Save/Load panicked: %v", caught)
				break
			}
			if err != nil {
				k, d = "save-error", fmt.Sprintf("Save: %v", err)
				break
			}
			if err2 != nil {
				b, _ := os.ReadFile(file)
				k, d = "load-rejects-saved-file", fmt.Sprintf("Load of a file written by Save failed: %v (file %q)", err2, string(b))
				break
			}
			res.Count("save_load_roundtrips", 1)
			if model.nlist == 0 { // Save is allowed to skip writing when nothing was listed: new cache is empty
				model = &c20Model{entries: map[string]*c20Entry{}}
			} else {
				model.nlist = 0
			}
			impl = n
		case 9:
			w.mu.Lock()
			w.invalid[pkgA] = !w.invalid[pkgA]
			w.mu.Unlock()
		case 10:
			w.bump(pkgS)
		case 12:
			k, d = doFind(pkgC)
		case 13:
			w.bump(pkgY)
		case 14:
			w.bump(pkgZ)
		}
		if k != "" {
			return k, fmt.Sprintf("step %d: %s\nhistory: %s", step, d, ctx())
		}
	}
	res.Count("list_invocations_seen_by_stub", int64(w.listLogLen()))
	return "", ""
}

// ---------------------------------------------------------------------------- plan

const (
	c20EnumPerCase = 40
	c20RandPerCase = 6
	c20FilePerCase = 60
	c20ConcPerCase = 2
)

type c20Plan struct{ enum, rnd, files, conc, during int } // number of cases of each kind

func c20PlanFor(tier string) c20Plan {
	if tier == "thorough" {
		// all histories of length <= 4 over 15 operations: 15+225+3375+50625 = 54240, plus 60000 sampled of length 5 and 6
		return c20Plan{enum: (c20EnumAll + 60000 + c20EnumPerCase - 1) / c20EnumPerCase, rnd: 400, files: 120, conc: 400, during: 1}
	}
	return c20Plan{enum: 100, rnd: 20, files: 40, conc: 40, during: 1}
}

const (
	c20EnumAll  = 15 + 225 + 3375 + 50625        // histories of length <= 4
	c20EnumUpTo = c20EnumAll + 759375 + 11390625 // ... of length <= 6
)

func enumHistory(idx int) []int { // idx-th history in length-then-lexicographic order
	n, l := c20NOps, 1
	for idx >= n {
		idx -= n
		n *= c20NOps
		l++
	}
	ops := make([]int, l)
	for i := l - 1; i >= 0; i-- {
		ops[i] = idx % c20NOps
		idx /= c20NOps
	}
	return ops
}

func init() {
	h.Register(&h.Check{
		ID:    "C20",
		Level: "fault_enumeration",
		Race:  true,
		Rule: "four workloads against packages/cache with a stub `go` on PATH and a scripted PkgHash: (1) sequential histories over {prepare, find(A), find(B), bump(A), bump(shared dep), " +
			"delete export file, listing fails/recovers, save+load into a new cache, HashInvalid toggle, bump of a HashSkip dependency} over three packages with different dependency lists (A: x y +skipped s; B: z; C: x z) listed together in two orders — " +
			"thorough: ALL histories of length<=4 over 15 operations (54240) plus 60000 sampled of length 5-6 plus random ones to length 40; " +
			"quick: seed-sampled histories of length<=6; every Find is compared with a reference model of the property statement (must re-list iff absent/changed/export missing; data stamp must equal the current " +
			"fingerprint vector; failed re-list must return an error) and ListTimes deltas are checked; (2) cache-file faults: truncation at every byte, single-byte substitutions from {TAB,NL,digit,-}, dropped/duplicated lines, " +
			"negative/huge counts — Load must not panic, must report every file that violates the documented grammar, and Find afterwards must serve current data; (3) concurrent histories (2-12 callers x 2 packages + one bumper) " +
			"recorded at the client boundary with one logical clock and checked per package with porcupine against a register model; (4) everything under the race detector. " +
			"non-trivial = history with at least one re-list and one served-fresh Find (or a fault file that is rejected / a concurrent history with >=1 bump overlapping a Find); distinct by history text",
		Assume: []string{"stub go lists exactly the requested packages", "fingerprints are unique and monotone per package", "porcupine v1.3.0", "Go race detector"},
		MinNT:  2,
		Plan: func(tier string, seed uint64) int {
			p := c20PlanFor(tier)
			return p.enum + p.rnd + p.files + p.conc + p.during
		},
		Run:        runC20,
		Exhaustive: func(tier string) bool { return false },
	})
}

func runC20(tier string, seed uint64, i int) []h.Result {
	p := c20PlanFor(tier)
	switch {
	case i < p.enum:
		return c20Enum(tier, seed, i)
	case i < p.enum+p.rnd:
		return c20Random(tier, seed, i-p.enum)
	case i < p.enum+p.rnd+p.files:
		return c20Files(tier, seed, i-p.enum-p.rnd, p.files)
	case i < p.enum+p.rnd+p.files+p.conc:
		return c20Concurrent(tier, seed, i-p.enum-p.rnd-p.files)
	default:
		return c20DuringListing()
	}
}

// c20DuringListing: deterministic histories in which a fingerprint changes while the listing is in progress
// (after the listing read the package, before the cache fingerprints it). The next lookup must not serve that data as current.
func c20DuringListing() []h.Result {
	var out []h.Result
	scen := []struct {
		name   string
		pre    bool   // Prepare(A,B) first and make the entry dirty by a bump
		find   string // package looked up
		bumped string // package bumped during the listing
	}{
		{"find(A)||bump(A) find(A)", false, pkgA, pkgA},
		{"find(B)||bump(D) find(B)", false, pkgB, pkgZ},
		{"prepare(A,B) bump(A) find(A)||bump(A) find(A)", true, pkgA, pkgA},
		{"prepare(A,B) bump(D) find(B)||bump(D) find(B)", true, pkgB, pkgZ},
		{"find(A)||bump(S) find(A)", false, pkgA, pkgS},
	}
	for si, sc := range scen {
		r := h.Result{Key: "history: " + sc.name, Verdict: h.Held, NonTrivial: true}
		w := newC20World(fmt.Sprintf("d%d", si))
		impl := cache.New(w.hash)
		if sc.pre {
			impl.Prepare(w.dir, pkgA, pkgB, pkgC)
			w.bump(sc.bumped)
		}
		hold := filepath.Join(w.dir, "ctl", "hold")
		held := filepath.Join(w.dir, "ctl", "held")
		os.WriteFile(hold, nil, 0o644)
		done := make(chan bool, 1)
		go func() {
			ok := false
			for i := 0; i < 5000; i++ {
				if _, err := os.Stat(held); err == nil {
					ok = true
					break
				}
				time.Sleep(time.Millisecond)
			}
			if ok {
				w.bump(sc.bumped)
			}
			os.Remove(hold)
			done <- ok
		}()
		rc, err := impl.Find(w.dir, sc.find)
		reached := <-done
		first := ""
		if rc != nil {
			b, _ := io.ReadAll(rc)
			rc.Close()
			first = string(b)
		}
		before := impl.ListTimes()
		rc2, err2 := impl.Find(w.dir, sc.find)
		second := ""
		if rc2 != nil {
			b, _ := io.ReadAll(rc2)
			rc2.Close()
			second = string(b)
		}
		cur := w.stampNow(sc.find)
		r.Count("during_listing_scenarios", 1)
		switch {
		case !reached || err != nil || err2 != nil:
			r.Verdict, r.Kind, r.Detail = h.Inconclusive, "scenario-not-reached", fmt.Sprintf("hold reached=%v err=%v err2=%v", reached, err, err2)
		case recordedPart(second) != recordedPart(cur):
			r.Verdict, r.Kind = h.Violated, "stale-after-bump-during-listing"
			r.Detail = fmt.Sprintf("a fingerprint of %s changed while %s was being listed; that lookup returned %q; the NEXT lookup returned %q with %d re-listings, but current is %q", sc.bumped, sc.find, first, second, impl.ListTimes()-before, cur)
		default:
			r.Detail = fmt.Sprintf("first %q second %q current %q relists on second %d", first, second, cur, impl.ListTimes()-before)
		}
		w.close()
		out = append(out, r)
	}
	return out
}

func histText(ops []int) string {
	s := make([]string, len(ops))
	for i, o := range ops {
		s[i] = c20Ops[o]
	}
	return strings.Join(s, " ")
}

func c20One(ops []int, tag string) h.Result {
	r := h.Result{Key: "history: " + histText(ops), Verdict: h.Held}
	k, d := c20History(ops, tag, &r)
	if k != "" {
		r.Verdict, r.Kind, r.Detail = h.Violated, k, d
	}
	r.NonTrivial = r.Counters["finds_relisted"] > 0 && r.Counters["finds_served_fresh"] > 0
	r.Count("histories", 1)
	r.Count("operations", int64(len(ops)))
	return r
}

func c20Enum(tier string, seed uint64, ci int) []h.Result {
	var out []h.Result
	for k := 0; k < c20EnumPerCase; k++ {
		var ops []int
		if tier == "thorough" {
			idx := ci*c20EnumPerCase + k
			if idx >= c20EnumAll+60000 {
				break
			}
			if idx >= c20EnumAll { // sampled histories of length 5 and 6
				r := h.NewRand(seed, 2006, uint64(idx))
				idx = c20EnumAll + r.Intn(c20EnumUpTo-c20EnumAll)
			}
			ops = enumHistory(idx)
		} else {
			r := h.NewRand(seed, 20, uint64(ci), uint64(k))
			// sample the space of histories of length <= 6 (short ones over-represented: half of the samples have length <= 4)
			if r.Bool() {
				ops = enumHistory(r.Intn(c20EnumAll))
			} else {
				ops = enumHistory(r.Intn(c20EnumUpTo))
			}
		}
		out = append(out, c20One(ops, fmt.Sprintf("e%d_%d", ci, k)))
	}
	return out
}

func c20Random(tier string, seed uint64, ci int) []h.Result {
	var out []h.Result
	for k := 0; k < c20RandPerCase; k++ {
		r := h.NewRand(seed, 2020, uint64(ci), uint64(k))
		n := 8 + r.Intn(33)
		ops := make([]int, n)
		for j := range ops {
			// bias towards finds
			if r.Chance(40) {
				ops[j] = []int{1, 2, 12}[r.Intn(3)]
			} else {
				ops[j] = r.Intn(c20NOps)
			}
		}
		out = append(out, c20One(ops, fmt.Sprintf("r%d_%d", ci, k)))
	}
	return out
}

// ---------------------------------------------------------------------------- malformed cache files

// wellFormed implements the documented grammar of the cache file independently:
//
//	<pkgPath> TAB <exportFile> TAB <pkgHash> TAB <depPkgNum> NL  followed by depPkgNum lines  TAB <depPath> TAB <depHash> NL
func wellFormed(b string) bool {
	lines := strings.Split(strings.TrimRight(b, "\n"), "\n")
	for i := 0; i < len(lines); {
		parts := strings.SplitN(lines[i], "\t", 4)
		if len(parts) != 4 || parts[0] == "" {
			return false
		}
		n, err := strconv.Atoi(parts[3])
		if err != nil || n < 0 || n > len(lines) || i+n > len(lines)-1 {
			return false
		}
		for j := 1; j <= n; j++ {
			l := lines[i+j]
			if !strings.HasPrefix(l, "\t") || strings.IndexByte(l[1:], '\t') <= 0 {
				return false
			}
		}
		i += n + 1
	}
	return true
}

// normExp replaces the per-run suffix of export file names (pid/sequence letters) by "N".
func normExp(s string) string {
	var sb strings.Builder
	for {
		i := strings.Index(s, "/exp/p_")
		if i < 0 {
			break
		}
		j := i + len("/exp/p_") + 2 // "a." or "b."
		if j > len(s) {
			break
		}
		sb.WriteString(s[:j])
		s = s[j:]
		k := 0
		for k < len(s) && s[k] >= 'a' && s[k] <= 'z' {
			k++
		}
		sb.WriteString("N")
		s = s[k:]
	}
	sb.WriteString(s)
	return sb.String()
}

func c20Mutations(orig string) []string {
	var out []string
	for i := 0; i < len(orig); i++ { // truncation at every byte
		out = append(out, orig[:i])
	}
	alphabet := []byte{'\t', '\n', '0', '7', '-', ' '}
	for i := 0; i < len(orig); i++ {
		for _, c := range alphabet {
			if orig[i] != c {
				out = append(out, orig[:i]+string(c)+orig[i+1:])
			}
		}
	}
	lines := strings.SplitAfter(orig, "\n")
	for i := range lines {
		var d, u []string
		d = append(d, lines[:i]...)
		d = append(d, lines[i+1:]...)
		out = append(out, strings.Join(d, ""))
		u = append(u, lines[:i+1]...)
		u = append(u, lines[i:]...)
		out = append(out, strings.Join(u, ""))
	}
	for _, cnt := range []string{"-1", "-2", "-9223372036854775808", "9223372036854775807", "4294967296", "1000000000", "+1", "0x1", "1e3", " 1", "1 ", ""} {
		// replace the count field of the first header line
		if nl := strings.IndexByte(orig, '\n'); nl > 0 {
			hd := orig[:nl]
			if t := strings.LastIndexByte(hd, '\t'); t > 0 {
				out = append(out, hd[:t+1]+cnt+orig[nl:])
			}
		}
	}
	return out
}

func c20Files(tier string, seed uint64, ci, ncases int) []h.Result {
	// build one valid cache file (deterministic layout: the world is always the same)
	w := newC20World(fmt.Sprintf("f%d", ci))
	defer w.close()
	impl := cache.New(w.hash)
	if err := impl.Prepare(w.dir, pkgA, pkgB); err != nil {
		return []h.Result{{Key: "cache-file setup", Verdict: h.Inconclusive, Kind: "setup", Detail: err.Error()}}
	}
	file := filepath.Join(w.dir, "cache.txt")
	impl.Save(file)
	b, _ := os.ReadFile(file)
	orig := string(b)
	// normalise: export paths differ per run; mutations are positional so make Key independent of the scratch dir
	muts := c20Mutations(orig)
	var out []h.Result
	for mi := ci; mi < len(muts); mi += ncases {
		m := muts[mi]
		key := fmt.Sprintf("cache-file mutation #%d of %d: %q", mi, len(muts), normExp(strings.ReplaceAll(m, w.dir, "$DIR")))
		r := h.Result{Key: key, Verdict: h.Held, NonTrivial: true}
		r.Count("files", 1)
		mf := filepath.Join(w.dir, "mut.txt")
		os.WriteFile(mf, []byte(m), 0o644)
		n := cache.New(w.hash)
		var err error
		var caught any
		func() {
			defer func() {
				if e := recover(); e != nil {
					caught = e
				}
			}()
			err = n.Load(mf)
		}()
		wf := wellFormed(m)
		switch {
		case caught != nil:
			r.Verdict, r.Kind, r.Detail = h.Violated, "load-panic", fmt.Sprintf("Load panicked: %v", caught)
		case !wf && err == nil && m != "":
			r.Verdict, r.Kind, r.Detail = h.Violated, "malformed-accepted", "file violates the documented grammar but Load returned nil"
		case wf && err != nil && m != "":
			r.Verdict, r.Kind, r.Detail = h.Violated, "wellformed-rejected", fmt.Sprintf("file follows the documented grammar but Load returned %v", err)
		}
		if err != nil {
			r.Count("files_rejected", 1)
		} else {
			r.Count("files_accepted", 1)
		}
		if r.Verdict == h.Held {
			// whatever was loaded, Find must serve current data for both packages
			for _, p := range []string{pkgA, pkgB} {
				var rc io.ReadCloser
				var ferr error
				func() {
					defer func() {
						if e := recover(); e != nil {
							caught = e
						}
					}()
					rc, ferr = n.Find(w.dir, p)
				}()
				if caught != nil {
					r.Verdict, r.Kind, r.Detail = h.Violated, "find-panic-after-load", fmt.Sprintf("Find(%s) panicked: %v", p, caught)
					break
				}
				content := ""
				if rc != nil {
					bb, _ := io.ReadAll(rc)
					rc.Close()
					content = string(bb)
				}
				if ferr != nil {
					r.Verdict, r.Kind, r.Detail = h.Violated, "find-error-after-load", fmt.Sprintf("Find(%s) after Load(err=%v): %v", p, err, ferr)
					break
				}
				if recordedPart(content) != recordedPart(w.stampNow(p)) {
					r.Verdict, r.Kind, r.Detail = h.Violated, "wrong-data-after-load", fmt.Sprintf("Find(%s) after Load(err=%v) returned %q, current is %q", p, err, content, w.stampNow(p))
					break
				}
				r.Count("finds_after_load", 1)
			}
		}
		out = append(out, r)
	}
	return out
}

// ---------------------------------------------------------------------------- concurrent histories

type c20In struct {
	Bump bool
	Pkg  string
}

func c20Concurrent(tier string, seed uint64, ci int) []h.Result {
	var out []h.Result
	for k := 0; k < c20ConcPerCase; k++ {
		r := h.NewRand(seed, 202020, uint64(ci), uint64(k))
		ncall := 2 + r.Intn(11)
		nfind := 3 + r.Intn(4)
		nbump := 2 + r.Intn(5)
		w := newC20World(fmt.Sprintf("c%d_%d", ci, k))
		if r.Chance(30) {
			os.WriteFile(filepath.Join(w.dir, "ctl", "delay"), []byte("10ms"), 0o644)
		}
		impl := cache.New(w.hash)
		if r.Bool() {
			impl.Prepare(w.dir, pkgA, pkgB)
		}
		var clock atomic.Int64
		var mu sync.Mutex
		var world sync.RWMutex // most bumps exclude lookups (quiescent fingerprint changes); the rest may overlap them
		var ops []porcupine.Operation
		var errs []string
		var wg sync.WaitGroup
		pkgs := []string{pkgA, pkgB}
		for c := 0; c < ncall; c++ {
			wg.Add(1)
			cr := h.NewRand(seed, 77, uint64(ci), uint64(k), uint64(c))
			go func(c int) {
				defer wg.Done()
				for j := 0; j < nfind; j++ {
					p := pkgs[cr.Intn(2)]
					world.RLock()
					t0 := clock.Add(1)
					rc, err := impl.Find(w.dir, p)
					content := ""
					if rc != nil {
						b, _ := io.ReadAll(rc)
						rc.Close()
						content = string(b)
					}
					t1 := clock.Add(1)
					world.RUnlock()
					_ = impl.ListTimes()
					mu.Lock()
					if err != nil {
						errs = append(errs, fmt.Sprintf("Find(%s): %v", p, err))
					}
					ops = append(ops, porcupine.Operation{ClientId: c, Input: c20In{Pkg: p}, Call: t0, Output: content, Return: t1})
					mu.Unlock()
				}
			}(c)
		}
		wg.Add(1)
		br := h.NewRand(seed, 78, uint64(ci), uint64(k))
		go func() {
			defer wg.Done()
			for j := 0; j < nbump; j++ {
				p := pkgs[br.Intn(2)]
				for s := br.Intn(200); s > 0; s-- {
					_ = clock.Load()
				}
				excl := br.Chance(70)
				if excl {
					world.Lock()
				}
				t0 := clock.Add(1)
				w.bump(p)
				t1 := clock.Add(1)
				if excl {
					world.Unlock()
				}
				mu.Lock()
				ops = append(ops, porcupine.Operation{ClientId: ncall, Input: c20In{Bump: true, Pkg: p}, Call: t0, Output: "", Return: t1})
				mu.Unlock()
			}
		}()
		wg.Wait()
		res := h.Result{Key: fmt.Sprintf("concurrent history seed=%d case=%d.%d callers=%d finds/caller=%d bumps=%d", seed, ci, k, ncall, nfind, nbump), Verdict: h.Held}
		res.Count("concurrent_histories", 1)
		res.Count("concurrent_operations", int64(len(ops)))
		overlap := 0
		for _, a := range ops {
			if a.Input.(c20In).Bump {
				for _, b := range ops {
					if !b.Input.(c20In).Bump && b.Input.(c20In).Pkg == a.Input.(c20In).Pkg && b.Call < a.Return && a.Call < b.Return {
						overlap++
					}
				}
			}
		}
		res.Count("bump_find_overlaps", int64(overlap))
		// A fingerprint change that overlaps a lookup of the same package may hit the list-then-fingerprint window of
		// Prepare (known finding KF-C20-TOCTOU, demonstrated deterministically by the "during listing" scenarios); from the
		// first such overlap on, that package's history is not decided here. Everything before it is.
		cut := map[string]int64{}
		for _, a := range ops {
			if a.Input.(c20In).Bump {
				for _, b := range ops {
					bi := b.Input.(c20In)
					if !bi.Bump && bi.Pkg == a.Input.(c20In).Pkg && b.Call < a.Return && a.Call < b.Return {
						if c, ok := cut[bi.Pkg]; !ok || a.Call < c {
							cut[bi.Pkg] = a.Call
						}
					}
				}
			}
		}
		var kept []porcupine.Operation
		for _, o := range ops {
			if c, ok := cut[o.Input.(c20In).Pkg]; ok && o.Return >= c {
				continue
			}
			kept = append(kept, o)
		}
		res.Count("concurrent_operations_decided", int64(len(kept)))
		nb := 0
		for _, o := range kept {
			if o.Input.(c20In).Bump {
				nb++
			}
		}
		res.Count("bumps_between_lookups_decided", int64(nb))
		ops = kept
		res.NonTrivial = nb > 0 && len(kept) > nb+2
		model := porcupine.Model{
			Partition: func(history []porcupine.Operation) [][]porcupine.Operation {
				m := map[string][]porcupine.Operation{}
				for _, o := range history {
					m[o.Input.(c20In).Pkg] = append(m[o.Input.(c20In).Pkg], o)
				}
				var parts [][]porcupine.Operation
				for _, p := range pkgs {
					parts = append(parts, m[p])
				}
				return parts
			},
			Init: func() any { return 1 },
			Step: func(st, in, out any) (bool, any) {
				i := in.(c20In)
				if i.Bump {
					return true, st.(int) + 1
				}
				return selfEpoch(out.(string)) == st.(int), st
			},
			DescribeOperation: func(in, out any) string {
				i := in.(c20In)
				if i.Bump {
					return "bump(" + i.Pkg + ")"
				}
				return fmt.Sprintf("find(%s)->%q", i.Pkg, out)
			},
		}
		if len(errs) > 0 {
			res.Verdict, res.Kind, res.Detail = h.Violated, "concurrent-find-error", strings.Join(errs, "; ")
		} else {
			verdict, info := porcupine.CheckOperationsVerbose(model, ops, 60*time.Second)
			switch verdict {
			case porcupine.Illegal:
				res.Verdict, res.Kind = h.Violated, "not-linearizable"
				res.Detail = describeHistory(ops) + fmt.Sprintf("\n(partial linearizations: %d partitions)", len(info.PartialLinearizations()))
			case porcupine.Unknown:
				res.Verdict, res.Kind, res.Detail = h.Inconclusive, "porcupine-timeout", "linearizability check timed out"
			}
		}
		w.close()
		out = append(out, res)
	}
	return out
}

func selfEpoch(stamp string) int {
	parts := strings.Split(stamp, ":")
	if len(parts) < 3 {
		return -1
	}
	n, err := strconv.Atoi(parts[2])
	if err != nil {
		return -1
	}
	return n
}

func describeHistory(ops []porcupine.Operation) string {
	var sb strings.Builder
	for _, o := range ops {
		i := o.Input.(c20In)
		if i.Bump {
			fmt.Fprintf(&sb, "[%d,%d] client %d bump(%s)\n", o.Call, o.Return, o.ClientId, i.Pkg)
		} else {
			fmt.Fprintf(&sb, "[%d,%d] client %d find(%s) -> %q\n", o.Call, o.Return, o.ClientId, i.Pkg, o.Output)
		}
	}
	return sb.String()
}
