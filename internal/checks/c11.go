package checks

import (
	"bytes"
	"fmt"
	"go/ast"
	"go/parser"
	"go/token"
	"go/types"
	"math/big"
	"os"
	"os/exec"
	"path/filepath"
	"runtime"
	"strconv"
	"strings"

	"github.com/goplus/gogen"
	"github.com/goplus/gogen/verif/internal/drive"
	"github.com/goplus/gogen/verif/internal/fe"
	"github.com/goplus/gogen/verif/internal/h"
	"github.com/goplus/gogen/verif/internal/ref"
)

// C11 — every language extension lowers to plain Go with the documented meaning (DESIGN.md §2 C11).
// Scenarios are built directly through the builder API (they are not Go programs); each prints observable results.
// Phase 1 (every scenario, isolated package): the builder must accept it and go/types must accept the output.
// Phase 2 (execution batch): the accepted scenarios are assembled into one program, an independently written
// plain-Go reference program is assembled from the scenario table, both are compiled and run, output compared per tag.

const c11Prelude = `package main

import "fmt"

type MyStr string
type AStr = string
type MyInt int
type MyF float64

var s = "Hello, World"
var ms MyStr = "Hello, Named"
var as AStr = "Hello, Alias"
var num = "42"
var n = 0
var bt, bf = true, false

func next() int      { n++; return n }
func nextS() string  { n++; return fmt.Sprint("Lv", n) }

var m = map[string]any{"a": 1, "b": map[string]any{"c": "deep", "d": map[string]any{"e": 2.5}}, "flag": true}
var mi = map[string]int{"x": 7, "y": 8}
var av any = m
var sl = []int{1, 2, 3}
var ssl = []string{"p", "q"}
var chn = make(chan int, 5)
var i64 int64 = -77
var u64 uint64 = 99
var f64 = 1.25
var iv = 12

type Pt struct{ X, Y int }

func (p Pt) Name() string  { return fmt.Sprint("pt", p.X) }
func (p *Pt) Scale(k int)  { p.X *= k; p.Y *= k }
func (p Pt) Len() int      { return p.X + p.Y }

var pt = Pt{3, 4}

// user-defined enumerators: Next-style with one value and with key + value, iterator-function style with one and two values
type it1 struct{ i, n int }

func (p *it1) Next() (int, bool) { p.i++; return p.i * 10, p.i <= p.n }

type En1 struct{ n int }

func (e *En1) XGo_Enum() *it1 { n++; return &it1{n: e.n} }

type it2 struct{ i, n int }

func (p *it2) Next() (int, string, bool) { p.i++; return p.i, fmt.Sprint("v", p.i), p.i <= p.n }

type En2 struct{ n int }

func (e En2) XGo_Enum() *it2 { n++; return &it2{n: e.n} }

type EnF1 struct{ n int }

func (e EnF1) XGo_Enum() func(yield func(int) bool) {
	n++
	return func(yield func(int) bool) {
		for i := 1; i <= e.n; i++ {
			if !yield(i * 7) {
				return
			}
		}
	}
}

type EnF2 struct{ n int }

func (e EnF2) XGo_Enum() func(yield func(int, string) bool) {
	n++
	return func(yield func(int, string) bool) {
		for i := 1; i <= e.n; i++ {
			if !yield(i, fmt.Sprint("w", i)) {
				return
			}
		}
	}
}

var en1 = &En1{3}
var en2 = En2{3}
var enf1 = EnF1{3}
var enf2 = EnF2{2}
`

type c11Env struct {
	pkg *gogen.Package
	cb  *gogen.CodeBuilder
	fmt gogen.PkgRef
}

func (e *c11Env) v(name string) types.Object { return e.pkg.Types.Scope().Lookup(name) }

// print emits fmt.Println(tag, <n values pushed by push>).
func (e *c11Env) print(tag string, push func() int) {
	e.cb.Val(e.fmt.Ref("Println")).Val(tag)
	n := push()
	e.cb.Call(n + 1).EndStmt()
}

type c11Scn struct {
	tag   string
	xgo   bool
	build func(e *c11Env)
	ref   string // plain Go statements (may use tag via %TAG%)
	// mayReject: the construct is not promised to be accepted (e.g. a constant *expression*, not a literal, too large
	// for int64 assigned to a big-number type); when accepted its meaning is checked, when rejected nothing is decided
	mayReject bool
}

// scopeVar resolves a variable through the enclosing scopes (a nil result would be taken for the blank identifier).
func scopeVar(cb *gogen.CodeBuilder, name string) types.Object {
	_, o := cb.Scope().LookupParent(name, token.NoPos)
	if o == nil {
		panic("harness: no variable " + name)
	}
	return o
}

func lit(kind token.Token, v string) *ast.BasicLit { return &ast.BasicLit{Kind: kind, Value: v} }

type c11Method struct {
	name string
	lib  string   // reference call prefix, receiver inserted as first argument: "strings.Count"
	args []string // Go text of user arguments
	ex   string   // extra arguments text appended in the reference (documented Exargs)
	nres int
}

var c11StrMethods = []c11Method{
	{"Len", "len", nil, "", 1}, {"Count", "strings.Count", []string{`"l"`}, "", 1}, {"Index", "strings.Index", []string{`"lo"`}, "", 1}, {"IndexAny", "strings.IndexAny", []string{`"xyzo"`}, "", 1},
	{"IndexByte", "strings.IndexByte", []string{`'o'`}, "", 1}, {"IndexRune", "strings.IndexRune", []string{`'W'`}, "", 1}, {"LastIndex", "strings.LastIndex", []string{`"l"`}, "", 1},
	{"LastIndexAny", "strings.LastIndexAny", []string{`"le"`}, "", 1}, {"LastIndexByte", "strings.LastIndexByte", []string{`'l'`}, "", 1}, {"Contains", "strings.Contains", []string{`"World"`}, "", 1},
	{"ContainsAny", "strings.ContainsAny", []string{`"xW"`}, "", 1}, {"ContainsRune", "strings.ContainsRune", []string{`'H'`}, "", 1}, {"Compare", "strings.Compare", []string{`"Hello"`}, "", 1},
	{"EqualFold", "strings.EqualFold", []string{`"hello, world"`}, "", 1}, {"HasPrefix", "strings.HasPrefix", []string{`"Hell"`}, "", 1}, {"HasSuffix", "strings.HasSuffix", []string{`"ld"`}, "", 1},
	{"Quote", "strconv.Quote", nil, "", 1}, {"Unquote", "strconv.Unquote", nil, "", 2}, {"ToTitle", "strings.ToTitle", nil, "", 1}, {"ToUpper", "strings.ToUpper", nil, "", 1}, {"ToLower", "strings.ToLower", nil, "", 1},
	{"Fields", "strings.Fields", nil, "", 1}, {"Repeat", "strings.Repeat", []string{"2"}, "", 1}, {"Split", "strings.Split", []string{`", "`}, "", 1}, {"SplitAfter", "strings.SplitAfter", []string{`"l"`}, "", 1},
	{"SplitN", "strings.SplitN", []string{`"l"`, "2"}, "", 1}, {"SplitAfterN", "strings.SplitAfterN", []string{`"l"`, "2"}, "", 1}, {"Replace", "strings.Replace", []string{`"l"`, `"L"`, "2"}, "", 1},
	{"ReplaceAll", "strings.ReplaceAll", []string{`"l"`, `"L"`}, "", 1}, {"Trim", "strings.Trim", []string{`"Hd"`}, "", 1}, {"TrimSpace", "strings.TrimSpace", nil, "", 1}, {"TrimLeft", "strings.TrimLeft", []string{`"He"`}, "", 1},
	{"TrimRight", "strings.TrimRight", []string{`"dl"`}, "", 1}, {"TrimPrefix", "strings.TrimPrefix", []string{`"Hello"`}, "", 1}, {"TrimSuffix", "strings.TrimSuffix", []string{`"ld"`}, "", 1},
	{"Int", "strconv.Atoi", nil, "", 2}, {"Int64", "strconv.ParseInt", nil, "10, 64", 2}, {"Uint64", "strconv.ParseUint", nil, "10, 64", 2}, {"Float", "strconv.ParseFloat", nil, "64", 2},
}

type c11Recv struct {
	name string
	push func(e *c11Env)
	ref  string // Go text, already converted to string where the library needs it
}

var c11StrRecvs = []c11Recv{
	{"literal", func(e *c11Env) { e.cb.Val("Hello, World") }, `"Hello, World"`},
	{"variable", func(e *c11Env) { e.cb.Val(e.v("s")) }, "s"},
	{"named", func(e *c11Env) { e.cb.Val(e.v("ms")) }, "string(ms)"},
	{"alias", func(e *c11Env) { e.cb.Val(e.v("as")) }, "as"},
	{"expression", func(e *c11Env) { e.cb.Val(e.v("s")).Val("!").BinaryOp(token.ADD) }, `(s + "!")`},
	{"call", func(e *c11Env) { e.cb.Val(e.v("nextS")).Call(0) }, "nextS()"},
	{"numeric", func(e *c11Env) { e.cb.Val(e.v("num")) }, "num"},
}

func pushArgText(e *c11Env, a string) {
	switch {
	case strings.HasPrefix(a, `"`):
		e.cb.Val(lit(token.STRING, a))
	case strings.HasPrefix(a, "'"):
		e.cb.Val(lit(token.CHAR, a))
	default:
		e.cb.Val(lit(token.INT, a))
	}
}

func c11Scenarios() []c11Scn {
	var out []c11Scn
	add := func(s c11Scn) { out = append(out, s) }
	// ---- methods on builtin types: string
	for _, mt := range c11StrMethods {
		for _, rc := range c11StrRecvs {
			mt, rc := mt, rc
			tag := "bti/string." + mt.name + "/" + rc.name
			args := append([]string{rc.ref}, mt.args...)
			if mt.ex != "" {
				args = append(args, mt.ex)
			}
			if mt.nres == 2 {
				add(c11Scn{tag: tag, build: func(e *c11Env) {
					e.cb.DefineVarStart(token.NoPos, "r1", "r2")
					rc.push(e)
					e.cb.MemberVal(mt.name, 0)
					for _, a := range mt.args {
						pushArgText(e, a)
					}
					e.cb.Call(len(mt.args)).EndInit(1)
					e.print(tag, func() int { e.cb.VarVal("r1").VarVal("r2").Val(nil).BinaryOp(token.EQL); return 2 })
					e.print(tag+"#n", func() int { e.cb.Val(e.v("n")); return 1 })
				}, ref: fmt.Sprintf("r1, r2 := %s(%s)\n\tfmt.Println(%q, r1, r2 == nil)\n\tfmt.Println(%q, n)", mt.lib, strings.Join(args, ", "), tag, tag+"#n")})
				continue
			}
			add(c11Scn{tag: tag, build: func(e *c11Env) {
				e.print(tag, func() int {
					rc.push(e)
					e.cb.MemberVal(mt.name, 0)
					for _, a := range mt.args {
						pushArgText(e, a)
					}
					e.cb.Call(len(mt.args))
					return 1
				})
				e.print(tag+"#n", func() int { e.cb.Val(e.v("n")); return 1 })
			}, ref: fmt.Sprintf("fmt.Println(%q, %s(%s))\n\tfmt.Println(%q, n)", tag, mt.lib, strings.Join(args, ", "), tag+"#n")})
		}
	}
	// ---- numeric String methods, slices, channels
	type simple struct{ tag, recv, method, ref string }
	for _, sm := range []simple{
		{"bti/int.String/variable", "iv", "String", "strconv.Itoa(iv)"}, {"bti/int64.String/variable", "i64", "String", "strconv.FormatInt(i64, 10)"},
		{"bti/uint64.String/variable", "u64", "String", "strconv.FormatUint(u64, 10)"}, {"bti/float64.String/variable", "f64", "String", "strconv.FormatFloat(f64, 'g', -1, 64)"},
		{"bti/[]int.Len", "sl", "Len", "len(sl)"}, {"bti/[]int.Cap", "sl", "Cap", "cap(sl)"}, {"bti/[]string.Len", "ssl", "Len", "len(ssl)"}, {"bti/[]string.Cap", "ssl", "Cap", "cap(ssl)"},
		{"bti/chan.Len", "chn", "Len", "len(chn)"},
	} {
		sm := sm
		add(c11Scn{tag: sm.tag, build: func(e *c11Env) {
			e.print(sm.tag, func() int { e.cb.Val(e.v(sm.recv)).MemberVal(sm.method, 0).Call(0); return 1 })
		}, ref: fmt.Sprintf("fmt.Println(%q, %s)", sm.tag, sm.ref)})
	}
	add(c11Scn{tag: "bti/[]string.Join", build: func(e *c11Env) {
		e.print("bti/[]string.Join", func() int { e.cb.Val(e.v("ssl")).MemberVal("Join", 0).Val("-").Call(1); return 1 })
	}, ref: `fmt.Println("bti/[]string.Join", strings.Join(ssl, "-"))`})
	add(c11Scn{tag: "bti/int.String/literal", build: func(e *c11Env) {
		e.print("bti/int.String/literal", func() int { e.cb.Val(100).MemberVal("String", 0).Call(0); return 1 })
	}, ref: `fmt.Println("bti/int.String/literal", strconv.Itoa(100))`})
	add(c11Scn{tag: "bti/float64.String/literal", build: func(e *c11Env) {
		e.print("bti/float64.String/literal", func() int { e.cb.Val(1.5).MemberVal("String", 0).Call(0); return 1 })
	}, ref: `fmt.Println("bti/float64.String/literal", strconv.FormatFloat(1.5, 'g', -1, 64))`})
	// ---- member access on string-keyed maps and on any
	type chain struct {
		tag  string
		root string
		keys []string
		ref  string
	}
	for _, ch := range []chain{
		{"member/map[string]int.x", "mi", []string{"x"}, `mi["x"]`},
		{"member/map[string]any.a", "m", []string{"a"}, `m["a"]`},
		{"member/map[string]any.b.c", "m", []string{"b", "c"}, `m["b"].(map[string]any)["c"]`},
		{"member/map[string]any.b.d.e", "m", []string{"b", "d", "e"}, `m["b"].(map[string]any)["d"].(map[string]any)["e"]`},
		{"member/any.a", "av", []string{"a"}, `av.(map[string]any)["a"]`},
		{"member/any.b.c", "av", []string{"b", "c"}, `av.(map[string]any)["b"].(map[string]any)["c"]`},
		{"member/map.missing", "mi", []string{"zz"}, `mi["zz"]`},
	} {
		ch := ch
		add(c11Scn{tag: ch.tag, build: func(e *c11Env) {
			e.print(ch.tag, func() int {
				e.cb.Val(e.v(ch.root))
				for _, k := range ch.keys {
					e.cb.MemberVal(k, 0)
				}
				return 1
			})
		}, ref: fmt.Sprintf("fmt.Println(%q, %s)", ch.tag, ch.ref)})
	}
	// ---- member chains on `any` in statement-header positions: each link is lowered to a generated assertion statement
	// (`_autoGo_N, _ := x.(map[string]any)`) that must be placed BEFORE the statement whose header contains the chain
	tyMSA := types.NewMap(types.Typ[types.String], gogen.TyEmptyInterface)
	chainBD := func(e *c11Env) { // av.b.d.(map[string]any)
		e.cb.Val(e.v("av")).MemberVal("b", 0).MemberVal("d", 0).TypeAssert(tyMSA, 0)
	}
	chainBC := func(e *c11Env) { // av.b.c.(string)
		e.cb.Val(e.v("av")).MemberVal("b", 0).MemberVal("c", 0).TypeAssert(types.Typ[types.String], 0)
	}
	const refBD = `av.(map[string]any)["b"].(map[string]any)["d"].(map[string]any)`
	const refBC = `av.(map[string]any)["b"].(map[string]any)["c"].(string)`
	add(c11Scn{tag: "member/any.pos/range-define", build: func(e *c11Env) {
		e.cb.ForRange("k", "v")
		chainBD(e)
		e.cb.RangeAssignThen(token.NoPos)
		e.print("member/any.pos/range-define", func() int { e.cb.VarVal("k").VarVal("v"); return 2 })
		e.cb.End()
	}, ref: "for k, v := range " + refBD + " {\n\t\tfmt.Println(\"member/any.pos/range-define\", k, v)\n\t}"})
	add(c11Scn{tag: "member/any.pos/range-assign", build: func(e *c11Env) {
		cb := e.cb
		cb.NewVar(types.Typ[types.String], "rk")
		cb.NewVar(gogen.TyEmptyInterface, "rv")
		cb.ForRange().VarRef(scopeVar(cb, "rk")).VarRef(scopeVar(cb, "rv"))
		chainBD(e)
		cb.RangeAssignThen(token.NoPos)
		e.print("member/any.pos/range-assign", func() int { cb.VarVal("rk").VarVal("rv"); return 2 })
		cb.End()
	}, ref: "var rk string\n\tvar rv any\n\tfor rk, rv = range " + refBD + " {\n\t\tfmt.Println(\"member/any.pos/range-assign\", rk, rv)\n\t}"})
	add(c11Scn{tag: "member/any.pos/range-assign-key", build: func(e *c11Env) {
		cb := e.cb
		cb.NewVar(types.Typ[types.String], "rk2")
		cb.ForRange().VarRef(scopeVar(cb, "rk2"))
		chainBD(e)
		cb.RangeAssignThen(token.NoPos)
		e.print("member/any.pos/range-assign-key", func() int { cb.VarVal("rk2"); return 1 })
		cb.End()
	}, ref: "var rk2 string\n\tfor rk2 = range " + refBD + " {\n\t\tfmt.Println(\"member/any.pos/range-assign-key\", rk2)\n\t}"})
	add(c11Scn{tag: "member/any.pos/range-novars", build: func(e *c11Env) {
		cb := e.cb
		cb.ForRange()
		chainBD(e)
		cb.RangeAssignThen(token.NoPos)
		e.print("member/any.pos/range-novars", func() int { cb.Val("once"); return 1 })
		cb.End()
	}, ref: "for range " + refBD + " {\n\t\tfmt.Println(\"member/any.pos/range-novars\", \"once\")\n\t}"})
	add(c11Scn{tag: "member/any.pos/if", mayReject: true, build: func(e *c11Env) {
		e.cb.If()
		chainBC(e)
		e.cb.Val("deep").BinaryOp(token.EQL).Then()
		e.print("member/any.pos/if", func() int { e.cb.Val("yes"); return 1 })
		e.cb.End()
	}, ref: "if " + refBC + " == \"deep\" {\n\t\tfmt.Println(\"member/any.pos/if\", \"yes\")\n\t}"})
	add(c11Scn{tag: "member/any.pos/else-if", mayReject: true, build: func(e *c11Env) {
		e.cb.If().Val(e.v("bf")).Then()
		e.print("member/any.pos/else-if", func() int { e.cb.Val("no"); return 1 })
		e.cb.Else().If()
		chainBC(e)
		e.cb.Val("deep").BinaryOp(token.EQL).Then()
		e.print("member/any.pos/else-if", func() int { e.cb.Val("yes"); return 1 })
		e.cb.End().End()
	}, ref: "if bf {\n\t\tfmt.Println(\"member/any.pos/else-if\", \"no\")\n\t} else if " + refBC + " == \"deep\" {\n\t\tfmt.Println(\"member/any.pos/else-if\", \"yes\")\n\t}"})
	add(c11Scn{tag: "member/any.pos/switch-tag", mayReject: true, build: func(e *c11Env) {
		e.cb.Switch()
		chainBC(e)
		e.cb.Then().Case().Val("deep").Then()
		e.print("member/any.pos/switch-tag", func() int { e.cb.Val("deep-case"); return 1 })
		e.cb.End().End()
	}, ref: "switch " + refBC + " {\n\tcase \"deep\":\n\t\tfmt.Println(\"member/any.pos/switch-tag\", \"deep-case\")\n\t}"})
	add(c11Scn{tag: "member/any.pos/for-cond", mayReject: true, build: func(e *c11Env) {
		e.cb.For()
		chainBC(e)
		e.cb.Val("shallow").BinaryOp(token.EQL).Then()
		e.print("member/any.pos/for-cond", func() int { e.cb.Val("never"); return 1 })
		e.cb.End()
		e.print("member/any.pos/for-cond", func() int { e.cb.Val("after"); return 1 })
	}, ref: "for " + refBC + " == \"shallow\" {\n\t\tfmt.Println(\"member/any.pos/for-cond\", \"never\")\n\t}\n\tfmt.Println(\"member/any.pos/for-cond\", \"after\")"})
	// one link = one generated statement: fits the single init slot of if / switch / for headers
	chainA := func(e *c11Env) { e.cb.Val(e.v("av")).MemberVal("a", 0).TypeAssert(types.Typ[types.Int], 0) }
	const refA = `av.(map[string]any)["a"].(int)`
	add(c11Scn{tag: "member/any.pos1/if", build: func(e *c11Env) {
		e.cb.If()
		chainA(e)
		e.cb.Val(1).BinaryOp(token.EQL).Then()
		e.print("member/any.pos1/if", func() int { e.cb.Val("yes"); return 1 })
		e.cb.End()
	}, ref: "if " + refA + " == 1 {\n\t\tfmt.Println(\"member/any.pos1/if\", \"yes\")\n\t}"})
	add(c11Scn{tag: "member/any.pos1/switch-tag", build: func(e *c11Env) {
		e.cb.Switch()
		chainA(e)
		e.cb.Then().Case().Val(1).Then()
		e.print("member/any.pos1/switch-tag", func() int { e.cb.Val("one"); return 1 })
		e.cb.End().End()
	}, ref: "switch " + refA + " {\n\tcase 1:\n\t\tfmt.Println(\"member/any.pos1/switch-tag\", \"one\")\n\t}"})
	add(c11Scn{tag: "member/any.pos1/for-cond", mayReject: true, build: func(e *c11Env) {
		e.cb.For()
		chainA(e)
		e.cb.Val(2).BinaryOp(token.EQL).Then()
		e.print("member/any.pos1/for-cond", func() int { e.cb.Val("never"); return 1 })
		e.cb.End()
		e.print("member/any.pos1/for-cond", func() int { e.cb.Val("after"); return 1 })
	}, ref: "for " + refA + " == 2 {\n\t\tfmt.Println(\"member/any.pos1/for-cond\", \"never\")\n\t}\n\tfmt.Println(\"member/any.pos1/for-cond\", \"after\")"})
	add(c11Scn{tag: "member/any.pos/var-init", build: func(e *c11Env) {
		e.cb.DefineVarStart(token.NoPos, "w")
		chainBC(e)
		e.cb.EndInit(1)
		e.print("member/any.pos/var-init", func() int { e.cb.VarVal("w"); return 1 })
	}, ref: "w := " + refBC + "\n\tfmt.Println(\"member/any.pos/var-init\", w)"})
	add(c11Scn{tag: "member/any.pos/closure-body", build: func(e *c11Env) {
		cb := e.cb
		cb.NewClosure(nil, nil, false).BodyStart(e.pkg)
		e.print("member/any.pos/closure-body", func() int { chainBC(e); return 1 })
		cb.End().Call(0).EndStmt()
	}, ref: "func() {\n\t\tfmt.Println(\"member/any.pos/closure-body\", " + refBC + ")\n\t}()"})
	add(c11Scn{tag: "member/map.assign", build: func(e *c11Env) {
		e.cb.Val(e.v("mi")).MemberRef("y").Val(55).Assign(1)
		e.print("member/map.assign", func() int { e.cb.Val(e.v("mi")).MemberVal("y", 0); return 1 })
	}, ref: "mi[\"y\"] = 55\n\tfmt.Println(\"member/map.assign\", mi[\"y\"])"})
	add(c11Scn{tag: "member/map.commaok", build: func(e *c11Env) {
		e.cb.DefineVarStart(token.NoPos, "val", "ok").Val(e.v("mi")).MemberVal("x", 2).EndInit(1)
		e.print("member/map.commaok", func() int { e.cb.VarVal("val").VarVal("ok"); return 2 })
	}, ref: "val, ok := mi[\"x\"]\n\tfmt.Println(\"member/map.commaok\", val, ok)"})
	add(c11Scn{tag: "member/if-position", build: func(e *c11Env) {
		e.cb.If().Val(e.v("mi")).MemberVal("x", 0).Val(3).BinaryOp(token.GTR).Then()
		e.print("member/if-position", func() int { e.cb.Val("yes"); return 1 })
		e.cb.End()
	}, ref: "if mi[\"x\"] > 3 {\n\t\tfmt.Println(\"member/if-position\", \"yes\")\n\t}"})
	// ---- boolean to number casts
	for _, t := range []string{"int", "int8", "int16", "int32", "int64", "uint", "uint8", "uint16", "uint32", "uint64", "uintptr", "float32", "float64", "MyInt"} {
		for _, bv := range []string{"bt", "bf"} {
			t, bv := t, bv
			tag := "boolcast/" + t + "/" + bv
			add(c11Scn{tag: tag, build: func(e *c11Env) {
				e.print(tag, func() int {
					var T types.Type
					if t == "MyInt" {
						T = e.v("MyInt").Type()
					} else {
						T = types.Universe.Lookup(t).Type()
					}
					e.cb.Typ(T).Val(e.v(bv)).Call(1)
					e.cb.Val(1).BinaryOp(token.ADD)
					return 1
				})
			}, ref: fmt.Sprintf("fmt.Println(%q, func() %s { if %s { return 1 }; return 0 }() + 1)", tag, t, bv)})
		}
	}
	// ---- omitted optional arguments become zero values
	for k := 1; k <= 6; k++ {
		k := k
		tag := fmt.Sprintf("optional/%d-of-6-args", k)
		argv := []string{"7", `"b"`, "2.5", "sl", "&pt", "MyInt(9)"}
		zero := []string{"0", `""`, "0", "nil", "nil", "0"}
		refArgs := append(append([]string{}, argv[:k]...), zero[k:]...)
		add(c11Scn{tag: tag, build: func(e *c11Env) {
			pkg := e.pkg
			ps := []*types.Var{
				pkg.NewParam(token.NoPos, "a", types.Typ[types.Int], false),
				pkg.NewParam(token.NoPos, "b", types.Typ[types.String], true),
				pkg.NewParam(token.NoPos, "c", types.Typ[types.Float64], true),
				pkg.NewParam(token.NoPos, "d", types.NewSlice(types.Typ[types.Int]), true),
				pkg.NewParam(token.NoPos, "e", types.NewPointer(e.v("Pt").Type()), true),
				pkg.NewParam(token.NoPos, "f", e.v("MyInt").Type(), true),
			}
			sig := types.NewSignatureType(nil, nil, nil, types.NewTuple(ps...), types.NewTuple(pkg.NewParam(token.NoPos, "", types.Typ[types.String], false)), false)
			e.cb.DefineVarStart(token.NoPos, "optf").NewClosureWith(sig).BodyStart(pkg)
			e.cb.Val(e.fmt.Ref("Sprint"))
			for _, p := range ps {
				e.cb.Val(p)
				if p.Name() == "d" || p.Name() == "e" {
					e.cb.Val(nil).BinaryOp(token.EQL)
				}
			}
			e.cb.Call(len(ps)).Return(1).End().EndInit(1)
			e.print(tag, func() int {
				e.cb.VarVal("optf")
				for j := 0; j < k; j++ {
					switch j {
					case 0:
						e.cb.Val(7)
					case 1:
						e.cb.Val("b")
					case 2:
						e.cb.Val(2.5)
					case 3:
						e.cb.Val(e.v("sl"))
					case 4:
						e.cb.VarRef(e.v("pt")).UnaryOp(token.AND)
					case 5:
						e.cb.Typ(e.v("MyInt").Type()).Val(9).Call(1)
					}
				}
				e.cb.Call(k)
				return 1
			})
		}, ref: fmt.Sprintf("optf := func(a int, b string, c float64, d []int, e *Pt, f MyInt) string { return fmt.Sprint(a, b, c, d == nil, e == nil, f) }\n\tfmt.Println(%q, optf(%s))", tag, strings.Join(refArgs, ", "))})
	}
	// ---- lower-case method alias and auto-property
	add(c11Scn{tag: "alias/auto-property", build: func(e *c11Env) {
		e.print("alias/auto-property", func() int { e.cb.Val(e.v("pt")); e.cb.Member("name", 0, gogen.MemberFlagAutoProperty); return 1 })
	}, ref: `fmt.Println("alias/auto-property", pt.Name())`})
	add(c11Scn{tag: "alias/method-call", build: func(e *c11Env) {
		e.print("alias/method-call", func() int {
			e.cb.Val(e.v("pt"))
			e.cb.Member("len", 0, gogen.MemberFlagMethodAlias)
			e.cb.Call(0)
			return 1
		})
	}, ref: `fmt.Println("alias/method-call", pt.Len())`})
	add(c11Scn{tag: "alias/pointer-method", build: func(e *c11Env) {
		e.cb.Val(e.v("pt"))
		e.cb.Member("scale", 0, gogen.MemberFlagMethodAlias)
		e.cb.Val(2).Call(1).EndStmt()
		e.print("alias/pointer-method", func() int { e.cb.Val(e.v("pt")); return 1 })
	}, ref: "pt.Scale(2)\n\tfmt.Println(\"alias/pointer-method\", pt)"})
	add(c11Scn{tag: "alias/imported-type", build: func(e *c11Env) {
		sb := e.pkg.Import("strings").Ref("Builder").Type()
		e.cb.NewVar(sb, "sb")
		e.cb.VarVal("sb")
		e.cb.Member("writeString", 0, gogen.MemberFlagMethodAlias)
		e.cb.Val("xyz").Call(1).EndStmt()
		e.print("alias/imported-type", func() int {
			e.cb.VarVal("sb")
			e.cb.Member("len", 0, gogen.MemberFlagMethodAlias)
			e.cb.Call(0)
			e.cb.VarVal("sb")
			e.cb.Member("string", 0, gogen.MemberFlagAutoProperty)
			return 2
		})
	}, ref: "var sb strings.Builder\n\tsb.WriteString(\"xyz\")\n\tfmt.Println(\"alias/imported-type\", sb.Len(), sb.String())"})
	// ---- inline closure calls bind arguments and results once
	add(c11Scn{tag: "inline/args-once", build: func(e *c11Env) {
		pkg := e.pkg
		a := pkg.NewParam(token.NoPos, "a", types.Typ[types.Int], false)
		b := pkg.NewParam(token.NoPos, "b", types.Typ[types.String], false)
		r := pkg.NewParam(token.NoPos, "r", types.Typ[types.String], false)
		sig := types.NewSignatureType(nil, nil, nil, types.NewTuple(a, b), types.NewTuple(r), false)
		e.cb.DefineVarStart(token.NoPos, "res")
		e.cb.Val(e.v("next")).Call(0).Val(e.v("nextS")).Call(0)
		e.cb.CallInlineClosureStart(sig, 2, false)
		e.cb.Val(e.fmt.Ref("Sprint")).Val(a).Val(b).Val(a).Val(b).Call(4).Return(1).End()
		e.cb.EndInit(1)
		e.print("inline/args-once", func() int { e.cb.VarVal("res").Val(e.v("n")); return 2 })
	}, ref: "res := func(a int, b string) string { return fmt.Sprint(a, b, a, b) }(next(), nextS())\n\tfmt.Println(\"inline/args-once\", res, n)"})
	add(c11Scn{tag: "inline/early-return", build: func(e *c11Env) {
		pkg := e.pkg
		a := pkg.NewParam(token.NoPos, "a", types.Typ[types.Int], false)
		r := pkg.NewParam(token.NoPos, "r", types.Typ[types.Int], false)
		sig := types.NewSignatureType(nil, nil, nil, types.NewTuple(a), types.NewTuple(r), false)
		e.cb.DefineVarStart(token.NoPos, "res")
		e.cb.Val(e.v("next")).Call(0)
		e.cb.CallInlineClosureStart(sig, 1, false)
		e.cb.If().Val(a).Val(0).BinaryOp(token.GTR).Then().Val(a).Val(100).BinaryOp(token.ADD).Return(1).End()
		e.cb.Val(-1).Return(1).End()
		e.cb.EndInit(1)
		e.print("inline/early-return", func() int { e.cb.VarVal("res").Val(e.v("n")); return 2 })
	}, ref: "res := func(a int) int { if a > 0 { return a + 100 }; return -1 }(next())\n\tfmt.Println(\"inline/early-return\", res, n)"})
	add(c11Scn{tag: "inline/variadic", build: func(e *c11Env) {
		pkg := e.pkg
		xs := pkg.NewParam(token.NoPos, "xs", types.NewSlice(types.Typ[types.Int]), false)
		r := pkg.NewParam(token.NoPos, "r", types.Typ[types.Int], false)
		sig := types.NewSignatureType(nil, nil, nil, types.NewTuple(xs), types.NewTuple(r), true)
		e.cb.DefineVarStart(token.NoPos, "res")
		e.cb.Val(e.v("next")).Call(0).Val(e.v("next")).Call(0).Val(5)
		e.cb.CallInlineClosureStart(sig, 3, false)
		e.cb.Val(types.Universe.Lookup("len")).Val(xs).Call(1).Val(xs).Val(0).Index(1, 0).BinaryOp(token.ADD).Return(1).End()
		e.cb.EndInit(1)
		e.print("inline/variadic", func() int { e.cb.VarVal("res").Val(e.v("n")); return 2 })
	}, ref: "res := func(xs ...int) int { return len(xs) + xs[0] }(next(), next(), 5)\n\tfmt.Println(\"inline/variadic\", res, n)"})
	// ---- user-defined enumerators drive range loops: Next-style (elem, ok) and (key, elem, ok), iterator functions with
	// one and two values; define form with named and blank variables, assign form, and no variables at all
	type enumForm struct {
		name   string
		define []string // names of the define form (nil: assign / none)
		assign []string // variables of the assign form ("_" allowed)
		use    []string // loop variables the body prints
	}
	enumCase := func(enum string, loopHead func(f enumForm) string, forms []enumForm) {
		for _, f := range forms {
			f := f
			tag := "enum/" + enum + "/" + f.name
			// reference: plain Go
			var rb strings.Builder
			rb.WriteString("acc, cnt := \"\", 0\n\t_, _ = acc, cnt\n\t")
			for _, a := range f.assign {
				if a == "kk" {
					rb.WriteString("var kk int\n\t_ = kk\n\t")
				}
				if a == "vv" {
					rb.WriteString("var vv string\n\t_ = vv\n\t")
				}
				if a == "ee" {
					rb.WriteString("var ee int\n\t_ = ee\n\t")
				}
			}
			rb.WriteString(loopHead(f))
			rb.WriteString("\n\t\tcnt++\n")
			if len(f.use) > 0 {
				rb.WriteString("\t\tacc += fmt.Sprint(" + strings.Join(f.use, ", ") + ", \";\")\n")
			}
			rb.WriteString("\t}\n\tfmt.Println(" + strconv.Quote(tag) + ", acc, cnt, n)")
			add(c11Scn{tag: tag, build: func(e *c11Env) {
				cb := e.cb
				cb.DefineVarStart(token.NoPos, "acc", "cnt").Val("").Val(0).EndInit(2)
				cb.VarRef(nil).VarRef(nil).VarVal("acc").VarVal("cnt").Assign(2, 2)
				for _, a := range f.assign {
					switch a {
					case "kk", "ee":
						cb.NewVar(types.Typ[types.Int], a)
						cb.VarRef(nil).VarVal(a).Assign(1, 1)
					case "vv":
						cb.NewVar(types.Typ[types.String], a)
						cb.VarRef(nil).VarVal(a).Assign(1, 1)
					}
				}
				if f.define != nil {
					cb.ForRange(append([]string(nil), f.define...)...) // ForRange rewrites the slice it is given ("_", v -> v)
				} else {
					cb.ForRange()
					for _, a := range f.assign {
						if a == "_" {
							cb.VarRef(nil)
						} else {
							cb.VarRef(scopeVar(cb, a))
						}
					}
				}
				cb.Val(e.v(enum)).RangeAssignThen(token.NoPos)
				cb.VarRef(scopeVar(cb, "cnt")).IncDec(token.INC)
				if len(f.use) > 0 {
					cb.VarRef(scopeVar(cb, "acc")).Val(e.fmt.Ref("Sprint"))
					for _, u := range f.use {
						cb.VarVal(u)
					}
					cb.Val(";").Call(len(f.use) + 1).AssignOp(token.ADD_ASSIGN)
				}
				cb.End()
				e.print(tag, func() int { cb.VarVal("acc").VarVal("cnt").Val(e.v("n")); return 3 })
			}, ref: rb.String()})
		}
	}
	lhs := func(f enumForm, arity int) (string, string) { // assignment list for Next() results and the token
		names, tok := f.define, ":="
		if f.define == nil {
			names, tok = f.assign, "="
		}
		out := make([]string, arity)
		for i := range out {
			out[i] = "_"
		}
		switch {
		case arity == 1 && len(names) == 1:
			out[0] = names[0]
		case arity == 1 && len(names) == 2:
			out[0] = names[1]
		case arity == 2:
			copy(out, names)
		}
		allBlank := true
		for _, o := range out {
			if o != "_" {
				allBlank = false
			}
		}
		if allBlank {
			tok = "="
		}
		return strings.Join(out, ", "), tok
	}
	enumCase("en1", func(f enumForm) string {
		l, tok := lhs(f, 1)
		if tok == ":=" {
			return "for it := en1.XGo_Enum(); ; {\n\t\t" + l + ", ok := it.Next()\n\t\tif !ok {\n\t\t\tbreak\n\t\t}"
		}
		return "for it := en1.XGo_Enum(); ; {\n\t\tvar ok bool\n\t\t" + l + ", ok = it.Next()\n\t\tif !ok {\n\t\t\tbreak\n\t\t}"
	}, []enumForm{
		{name: "define _,val", define: []string{"_", "val"}, use: []string{"val"}}, {name: "define val", define: []string{"val"}, use: []string{"val"}},
		{name: "define _", define: []string{"_"}}, {name: "define _,_", define: []string{"_", "_"}},
		{name: "assign ee", assign: []string{"ee"}, use: []string{"ee"}}, {name: "assign _", assign: []string{"_"}}, {name: "no variables", assign: []string{}},
	})
	enumCase("en2", func(f enumForm) string {
		l, tok := lhs(f, 2)
		if tok == ":=" {
			return "for it := en2.XGo_Enum(); ; {\n\t\t" + l + ", ok := it.Next()\n\t\tif !ok {\n\t\t\tbreak\n\t\t}"
		}
		return "for it := en2.XGo_Enum(); ; {\n\t\tvar ok bool\n\t\t" + l + ", ok = it.Next()\n\t\tif !ok {\n\t\t\tbreak\n\t\t}"
	}, []enumForm{
		{name: "define k,v", define: []string{"k", "v"}, use: []string{"k", "v"}}, {name: "define _,v", define: []string{"_", "v"}, use: []string{"v"}},
		{name: "define k,_", define: []string{"k", "_"}, use: []string{"k"}}, {name: "define k", define: []string{"k"}, use: []string{"k"}},
		{name: "define _,_", define: []string{"_", "_"}}, {name: "define _", define: []string{"_"}},
		{name: "assign kk,vv", assign: []string{"kk", "vv"}, use: []string{"kk", "vv"}}, {name: "assign _,vv", assign: []string{"_", "vv"}, use: []string{"vv"}},
		{name: "assign kk", assign: []string{"kk"}, use: []string{"kk"}}, {name: "assign _,_", assign: []string{"_", "_"}}, {name: "no variables", assign: []string{}},
	})
	rangeHead := func(enum string) func(f enumForm) string {
		return func(f enumForm) string {
			names, tok := f.define, ":="
			if f.define == nil {
				names, tok = f.assign, "="
			}
			if len(names) == 0 {
				return "for range " + enum + ".XGo_Enum() {"
			}
			allBlank := true
			for _, nm := range names {
				if nm != "_" {
					allBlank = false
				}
			}
			if allBlank {
				tok = "="
			}
			return "for " + strings.Join(names, ", ") + " " + tok + " range " + enum + ".XGo_Enum() {"
		}
	}
	enumCase("enf1", rangeHead("enf1"), []enumForm{
		{name: "define v", define: []string{"v"}, use: []string{"v"}}, {name: "define _", define: []string{"_"}},
		{name: "assign ee", assign: []string{"ee"}, use: []string{"ee"}}, {name: "no variables", assign: []string{}},
	})
	enumCase("enf2", rangeHead("enf2"), []enumForm{
		{name: "define k,v", define: []string{"k", "v"}, use: []string{"k", "v"}}, {name: "define _,v", define: []string{"_", "v"}, use: []string{"v"}},
		{name: "define k", define: []string{"k"}, use: []string{"k"}}, {name: "define _,_", define: []string{"_", "_"}},
		{name: "assign kk,vv", assign: []string{"kk", "vv"}, use: []string{"kk", "vv"}}, {name: "no variables", assign: []string{}},
	})
	// ---- zero-argument conversion T()
	for _, t := range []string{"int", "string", "float64", "bool", "MyInt", "MyStr", "Pt"} {
		t := t
		tag := "zeroconv/" + t
		add(c11Scn{tag: tag, build: func(e *c11Env) {
			e.print(tag, func() int {
				var T types.Type
				if o := e.v(t); o != nil {
					T = o.Type()
				} else {
					T = types.Universe.Lookup(t).Type()
				}
				e.cb.Val(e.fmt.Ref("Sprintf")).Val("%#v").Typ(T).Call(0).Call(2)
				return 1
			})
		}, ref: fmt.Sprintf("fmt.Println(%q, fmt.Sprintf(\"%%#v\", func() (z %s) { return }()))", tag, t)})
	}
	// ---- unit literals
	for _, u := range [][3]string{{"3", "s", "3 * time.Second"}, {"250", "ms", "250 * time.Millisecond"}, {"2", "h", "2 * time.Hour"}, {"1", "d", "24 * time.Hour"}, {"5", "us", "5 * time.Microsecond"}, {"7", "ns", "7 * time.Nanosecond"}, {"4", "m", "4 * time.Minute"}} {
		u := u
		tag := "unit/" + u[0] + u[1]
		add(c11Scn{tag: tag, build: func(e *c11Env) {
			e.print(tag, func() int {
				d := e.pkg.Import("time").Ref("Duration").Type()
				e.cb.ValWithUnit(lit(token.INT, u[0]), d, u[1])
				return 1
			})
		}, ref: fmt.Sprintf("fmt.Println(%q, time.Duration(%s))", tag, u[2])})
	}
	// ---- big-number literals evaluate to exactly the written value (XGo configuration)
	bigs := []string{"0", "1", "-1", "18446744073709551616", "-170141183460469231731687303715884105729", "1267650600228229401496703205376", "123456789012345678901234567890123456789012345678901234567890"}
	// boundary sweep: around every power of two where a machine-word shortcut could change (int8 ... int64, uint64, float53, 128)
	for _, k := range []uint{7, 8, 15, 16, 31, 32, 53, 62, 63, 64, 65, 127, 128} {
		p2 := new(big.Int).Lsh(big.NewInt(1), k)
		for _, d := range []int64{-1, 0, 1} {
			v := new(big.Int).Add(p2, big.NewInt(d))
			bigs = append(bigs, v.String(), new(big.Int).Neg(v).String())
		}
	}
	bigs = dedupStrings(bigs)
	for _, bv := range bigs {
		bv := bv
		tag := "big/int/" + bv
		add(c11Scn{tag: tag, xgo: true, build: func(e *c11Env) {
			v, _ := new(big.Int).SetString(bv, 10)
			bi := e.pkg.Import("github.com/goplus/gogen/internal/builtin").Ref("XGo_bigint").Type()
			e.cb.NewVarStart(bi, "x").UntypedBigInt(v).EndInit(1)
			e.print(tag, func() int { e.cb.VarVal("x").MemberVal("String", 0).Call(0); return 1 })
		}, ref: fmt.Sprintf("fmt.Println(%q, %q)", tag, bv)})
	}
	// untyped integer constants assigned to a big-number variable (implicit conversion of the constant)
	for _, k := range []int{31, 62, 63, 64, 100} {
		for _, form := range []string{"pow", "neg", "pred", "negpred"} {
			k, form := k, form
			v := new(big.Int).Lsh(big.NewInt(1), uint(k))
			switch form {
			case "neg":
				v.Neg(v)
			case "pred":
				v.Sub(v, big.NewInt(1))
			case "negpred":
				v.Sub(v, big.NewInt(1)).Neg(v)
			}
			for _, ty := range []string{"XGo_bigint", "XGo_bigrat"} {
				ty := ty
				tag := fmt.Sprintf("big/const/%s/%s/%d", ty, form, k)
				want := v.String()
				if ty == "XGo_bigrat" {
					want = new(big.Rat).SetInt(v).String()
				}
				add(c11Scn{tag: tag, xgo: true, mayReject: true, build: func(e *c11Env) {
					bt := e.pkg.Import("github.com/goplus/gogen/internal/builtin").Ref(ty).Type()
					e.cb.NewVarStart(bt, "x").Val(1).Val(k).BinaryOp(token.SHL)
					if form == "pred" || form == "negpred" {
						e.cb.Val(1).BinaryOp(token.SUB)
					}
					if form == "neg" || form == "negpred" {
						e.cb.UnaryOp(token.SUB)
					}
					e.cb.EndInit(1)
					e.print(tag, func() int { e.cb.VarVal("x").MemberVal("String", 0).Call(0); return 1 })
				}, ref: fmt.Sprintf("fmt.Println(%q, %q)", tag, want)})
			}
		}
	}
	rats := [][2]string{{"1", "3"}, {"-22", "7"}, {"1", "1000000000000000000000000000001"}, {"5", "1"}, {"340282366920938463463374607431768211456", "3"}}
	for _, k := range []uint{31, 63, 64} {
		p2 := new(big.Int).Lsh(big.NewInt(1), k)
		for _, d := range []int64{-1, 0, 1} {
			v := new(big.Int).Add(p2, big.NewInt(d)).String()
			rats = append(rats, [2]string{v, "3"}, [2]string{"-" + v, "340282366920938463463374607431768211459"}, [2]string{"1", v}, [2]string{"340282366920938463463374607431768211459", v})
		}
	}
	for _, rv := range rats {
		rv := rv
		tag := "big/rat/" + rv[0] + "/" + rv[1]
		a, _ := new(big.Int).SetString(rv[0], 10)
		b, _ := new(big.Int).SetString(rv[1], 10)
		want := new(big.Rat).SetFrac(a, b).String()
		add(c11Scn{tag: tag, xgo: true, build: func(e *c11Env) {
			br := e.pkg.Import("github.com/goplus/gogen/internal/builtin").Ref("XGo_bigrat").Type()
			e.cb.NewVarStart(br, "x").UntypedBigRat(new(big.Rat).SetFrac(a, b)).EndInit(1)
			e.print(tag, func() int { e.cb.VarVal("x").MemberVal("String", 0).Call(0); return 1 })
		}, ref: fmt.Sprintf("fmt.Println(%q, %q)", tag, want)})
	}
	for _, op := range []struct {
		name string
		tok  token.Token
		f    func(a, b *big.Int) *big.Int
	}{{"add", token.ADD, func(a, b *big.Int) *big.Int { return new(big.Int).Add(a, b) }}, {"sub", token.SUB, func(a, b *big.Int) *big.Int { return new(big.Int).Sub(a, b) }},
		{"mul", token.MUL, func(a, b *big.Int) *big.Int { return new(big.Int).Mul(a, b) }}, {"quo", token.QUO, func(a, b *big.Int) *big.Int { return new(big.Int).Quo(a, b) }},
		{"rem", token.REM, func(a, b *big.Int) *big.Int { return new(big.Int).Rem(a, b) }}} {
		op := op
		tag := "big/op/" + op.name
		a, _ := new(big.Int).SetString("1267650600228229401496703205376", 10)
		b, _ := new(big.Int).SetString("-18446744073709551617", 10)
		add(c11Scn{tag: tag, xgo: true, build: func(e *c11Env) {
			bi := e.pkg.Import("github.com/goplus/gogen/internal/builtin").Ref("XGo_bigint").Type()
			e.cb.NewVarStart(bi, "x").UntypedBigInt(a).EndInit(1)
			e.cb.NewVarStart(bi, "y").UntypedBigInt(b).EndInit(1)
			e.print(tag, func() int { e.cb.VarVal("x").VarVal("y").BinaryOp(op.tok).MemberVal("String", 0).Call(0); return 1 })
		}, ref: fmt.Sprintf("fmt.Println(%q, %q)", tag, op.f(a, b).String())})
	}
	return out
}

var c11All []c11Scn

func c11List() []c11Scn {
	if c11All == nil {
		c11All = c11Scenarios()
	}
	return c11All
}

// c11Build builds a package containing the prelude and one function per scenario; returns the outcome.
func c11Build(u *ref.Universe, scns []c11Scn, xgo bool, withMain bool) *drive.Outcome {
	o := &drive.Outcome{OpKinds: map[string]int{}}
	f, err := parser.ParseFile(u.Fset, "c11prelude.go", c11Prelude, parser.SkipObjectResolution)
	if err != nil {
		o.Status, o.Msg = "fe", err.Error()
		return o
	}
	pkg := drive.NewPackage(u, "main", drive.Opt{XGo: xgo}, o)
	func() {
		defer func() {
			if e := recover(); e != nil {
				buf := make([]byte, 1<<14)
				n := runtime.Stack(buf, false)
				o.Stack = string(buf[:n])
				o.Status, o.Msg, o.CrashSig = drive.Classify(e, o.Stack)
			}
		}()
		c := &fe.Compiler{Pkg: pkg}
		c.CompileFile(f)
		env := &c11Env{pkg: pkg, cb: pkg.CB(), fmt: pkg.Import("fmt")}
		var names []string
		for i, s := range scns {
			name := fmt.Sprintf("scn%d", i)
			names = append(names, name)
			pkg.NewFunc(nil, name, nil, nil, false).BodyStart(pkg)
			s.build(env)
			env.cb.End()
		}
		if withMain {
			pkg.NewFunc(nil, "main", nil, nil, false).BodyStart(pkg)
			for _, nm := range names {
				env.cb.Val(pkg.Types.Scope().Lookup(nm)).Call(0).EndStmt()
			}
			env.cb.End()
		}
		o.Status = "accepted"
	}()
	if o.Status == "accepted" {
		if len(o.Handled) > 0 {
			o.Status, o.Msg = "rejected", o.Handled[0]
		} else {
			o.Write(u, pkg, "main")
		}
	}
	return o
}

func c11RefProgram(scns []c11Scn) string {
	var sb strings.Builder
	sb.WriteString(strings.Replace(c11Prelude, `import "fmt"`, "import (\n\t\"fmt\"\n\t\"strconv\"\n\t\"strings\"\n\t\"time\"\n)\n\nvar _ = strconv.Itoa\nvar _ = strings.ToUpper\nvar _ time.Duration", 1))
	for i, s := range scns {
		fmt.Fprintf(&sb, "\nfunc scn%d() {\n\t%s\n}\n", i, s.ref)
	}
	sb.WriteString("\nfunc main() {\n")
	for i := range scns {
		fmt.Fprintf(&sb, "\tscn%d()\n", i)
	}
	sb.WriteString("}\n")
	return sb.String()
}

// runProgram compiles and runs a main package in a scratch module (replace gogen => /repo) and returns its stdout.
func runProgram(name, src string) (string, error) {
	dir := filepath.Join(h.Scratch(), fmt.Sprintf("e5.%d.%s", os.Getpid(), name))
	os.RemoveAll(dir)
	if err := os.MkdirAll(dir, 0o755); err != nil {
		return "", err
	}
	defer os.RemoveAll(dir)
	gomod := "module github.com/goplus/gogen/vscratch\n\ngo 1.23\n\nrequire github.com/goplus/gogen v0.0.0\n\nreplace github.com/goplus/gogen => " + ref.RepoDir() + "\n"
	os.WriteFile(filepath.Join(dir, "go.mod"), []byte(gomod), 0o644)
	os.WriteFile(filepath.Join(dir, "main.go"), []byte(src), 0o644)
	cmd := exec.Command("go", "run", ".")
	cmd.Dir = dir
	cmd.Env = append(os.Environ(), "GOFLAGS=-mod=mod", "GOPROXY=off", "GOSUMDB=off", "GOTOOLCHAIN=local", "GOCACHE="+filepath.Join(h.Scratch(), "gocache"))
	var stdout, stderr bytes.Buffer
	cmd.Stdout, cmd.Stderr = &stdout, &stderr
	if err := cmd.Run(); err != nil {
		return stdout.String(), fmt.Errorf("%v: %s", err, tailStr(stderr.String(), 1500))
	}
	return stdout.String(), nil
}

func tailStr(s string, n int) string {
	if len(s) > n {
		return s[len(s)-n:]
	}
	return s
}

func c11Run(tier string, seed uint64, i int) []h.Result {
	scns := c11List()
	u := sharedUniverse()
	if i < len(scns) { // phase 1: one scenario, isolated
		s := scns[i]
		res := h.Result{Key: "scenario " + s.tag, Verdict: h.Held, NonTrivial: true}
		res.Tag("family:" + strings.SplitN(s.tag, "/", 2)[0])
		o := c11Build(u, []c11Scn{s}, s.xgo, false)
		res.Count("scenarios_built", 1)
		switch {
		case o.Status == "fe":
			res.Verdict, res.Kind, res.Detail = h.Inconclusive, "prelude", o.Msg
		case o.Status == "crash":
			res.Verdict, res.Kind, res.Detail = h.Violated, "crash: "+o.CrashSig, o.Msg+"\n"+o.Stack
		case o.Status != "accepted" && s.mayReject:
			res.Verdict, res.Kind, res.Detail, res.NonTrivial = h.Skip, "not-accepted(no promise)", o.Msg, false
		case o.Status != "accepted":
			res.Verdict, res.Kind, res.Detail = h.Violated, "extension-rejected", o.Msg
		case len(o.OutErrs) > 0:
			res.Verdict, res.Kind = h.Violated, "lowering-ill-typed"
			res.Detail = firstN(o.OutErrs, 2) + "\n" + c11Func(o.Output())
		default:
			res.Detail = c11Func(o.Output())
		}
		return []h.Result{res}
	}
	// phase 2: execution batches (default configuration, XGo configuration)
	xgo := i-len(scns) == 1
	var batch []c11Scn
	for _, s := range scns {
		if s.xgo != xgo {
			continue
		}
		o := c11Build(u, []c11Scn{s}, s.xgo, false)
		if o.Status == "accepted" && len(o.OutErrs) == 0 {
			batch = append(batch, s)
		}
	}
	cfg := map[bool]string{false: "default", true: "xgo"}[xgo]
	o := c11Build(u, batch, xgo, true)
	if o.Status != "accepted" || len(o.OutErrs) > 0 {
		return []h.Result{{Key: "execution batch " + cfg, Verdict: h.Violated, Kind: "batch-does-not-build", Detail: o.Status + " " + o.Msg + " " + firstN(o.OutErrs, 3), NonTrivial: true}}
	}
	got, err1 := runProgram("gen_"+cfg, o.Output())
	want, err2 := runProgram("ref_"+cfg, c11RefProgram(batch))
	if err2 != nil {
		return []h.Result{{Key: "execution batch " + cfg, Verdict: h.Inconclusive, Kind: "reference-program-failed", Detail: err2.Error()}}
	}
	if err1 != nil {
		return []h.Result{{Key: "execution batch " + cfg, Verdict: h.Violated, Kind: "generated-program-failed", Detail: err1.Error() + "\n" + tailStr(got, 500), Input: o.Output(), NonTrivial: true}}
	}
	parse := func(out string) map[string]string {
		m := map[string]string{}
		for _, l := range strings.Split(out, "\n") {
			if sp := strings.IndexByte(l, ' '); sp > 0 {
				m[l[:sp]] = l[sp+1:]
			} else if l != "" {
				m[l] = ""
			}
		}
		return m
	}
	gm, wm := parse(got), parse(want)
	var out []h.Result
	for _, s := range batch {
		res := h.Result{Key: "executed " + s.tag, Verdict: h.Held, NonTrivial: true}
		res.Count("scenarios_executed", 1)
		for _, tg := range []string{s.tag, s.tag + "#n"} {
			w, okw := wm[tg]
			g, okg := gm[tg]
			if !okw {
				continue
			}
			if !okg || g != w {
				res.Verdict, res.Kind = h.Violated, "behaviour-differs"
				res.Detail = fmt.Sprintf("%s: lowered program printed %q, reference printed %q", tg, g, w)
			}
		}
		if res.Verdict == h.Held {
			res.Detail = "printed " + wm[s.tag]
		}
		out = append(out, res)
	}
	return out
}

func c11Func(out string) string {
	if i := strings.Index(out, "func scn0()"); i >= 0 {
		s := out[i:]
		if j := strings.Index(s, "\n}\n"); j >= 0 {
			s = s[:j+2]
		}
		return s
	}
	return ""
}

func init() {
	h.Register(&h.Check{
		ID: "C11", Level: "exploration", CPULimit: 600,
		Rule: "scenario table built through the builder API (complete in both tiers): every registered string method x 7 receiver forms (literal, variable, named type needing a conversion, alias type, parenthesised expression, side-effecting call, numeric text) with arguments and the documented extra arguments; " +
			"String on int/int64/uint64/float64; Len/Cap/Join on slices, string slices and channels; member chains of depth 1-3 on map[string]T and any (value, assignment target, comma-ok, if-condition position); bool -> 14 numeric types; a 6-parameter function with 5 optional parameters called with 1..6 arguments; " +
			"lower-case method alias and auto-property on local and imported types incl. pointer receivers; inline closure calls (arguments from side-effecting calls bound once, early return, variadic); zero-argument conversions; duration unit literals; big integer/rational literals and the operators on them (XGo configuration). " +
			"Phase 1: each scenario alone must be accepted and its output must type-check. Phase 2: the accepted scenarios are assembled into one program per configuration, an independently written plain-Go reference program is generated from the table " +
			"(library calls as documented; big-number expectations computed with math/big), both are compiled and executed, and the printed results (incl. the side-effect counter) are compared per scenario. non-trivial = scenario decided; distinct by scenario tag",
		Assume:     []string{"the documented meaning of each row is written in the scenario table (library call / zero value / exact decimal)", "the Go toolchain compiles and runs both programs; go/types on the emitted package"},
		MinNT:      100,
		Plan:       func(tier string, seed uint64) int { return len(c11List()) + 2 },
		Run:        c11Run,
		Exhaustive: func(string) bool { return true },
	})
}

// C11Bisect is a debugging aid: finds a minimal pair/prefix of default-configuration scenarios whose batch does not build.
func C11Bisect() {
	u := sharedUniverse()
	var ok []c11Scn
	for _, s := range c11List() {
		if s.xgo {
			continue
		}
		o := c11Build(u, []c11Scn{s}, false, false)
		if o.Status == "accepted" && len(o.OutErrs) == 0 {
			ok = append(ok, s)
		}
	}
	fmt.Println(len(ok), "scenarios accepted individually")
	var acc []c11Scn
	for _, s := range ok {
		try := append(append([]c11Scn{}, acc...), s)
		o := c11Build(u, try, false, true)
		if o.Status != "accepted" || len(o.OutErrs) > 0 {
			fmt.Println("adding", s.tag, "breaks the batch:", o.Status, o.Msg, firstN(o.OutErrs, 2))
			// find the partner
			for _, p := range acc {
				o2 := c11Build(u, []c11Scn{p, s}, false, true)
				if o2.Status != "accepted" || len(o2.OutErrs) > 0 {
					fmt.Println("   already with", p.tag, ":", o2.Status, o2.Msg, firstN(o2.OutErrs, 1))
					break
				}
			}
			continue
		}
		acc = try
	}
}
