package checks

import (
	"fmt"
	"go/token"
	"go/types"
	"runtime"

	"github.com/goplus/gogen"
	"github.com/goplus/gogen/verif/internal/drive"
	"github.com/goplus/gogen/verif/internal/h"
)

// C16, inline closure calls (not expressible in Go source, so not reachable through the front end): API-driven scenarios.
// CallInlineClosureStart(sig, arity, ellipsis) ... End() is documented as: pops arity arguments, pushes one operand per
// result. The scenario leaves `pending` operands of an enclosing call below the arguments, nests the whole statement in
// 0-3 block constructs, and asserts after End(): stack = base + pending + results, Scope()/Func()/InVBlock() unchanged;
// after the enclosing statement: stack at base; after all blocks are closed: the function's scope again.

type c16InlineCase struct {
	arity, pending, results, nest int
	variadic                     bool
}

func c16InlineCases() []c16InlineCase {
	var out []c16InlineCase
	for arity := 0; arity <= 3; arity++ {
		for pending := 0; pending <= 3; pending++ {
			for results := 0; results <= 2; results++ {
				for nest := 0; nest <= 3; nest++ {
					out = append(out, c16InlineCase{arity, pending, results, nest, false})
				}
			}
		}
	}
	for pending := 0; pending <= 2; pending++ {
		for nest := 0; nest <= 3; nest++ {
			out = append(out, c16InlineCase{3, pending, 1, nest, true}, c16InlineCase{1, pending, 1, nest, true})
		}
	}
	return out
}

func c16InlineRun(k int) []h.Result {
	c := c16InlineCases()[k]
	key := fmt.Sprintf("inline closure call: arity=%d variadic=%v pending-operands=%d results=%d nested-in=%d blocks", c.arity, c.variadic, c.pending, c.results, c.nest)
	res := h.Result{Key: key, Verdict: h.Held, NonTrivial: true}
	u := sharedUniverse()
	o := &drive.Outcome{OpKinds: map[string]int{}}
	fail := func(kind, detail string) []h.Result {
		res.Verdict, res.Kind, res.Detail = h.Violated, kind, detail
		return []h.Result{res}
	}
	var violation string
	func() {
		defer func() {
			if e := recover(); e != nil {
				buf := make([]byte, 1<<13)
				n := runtime.Stack(buf, false)
				o.Stack = string(buf[:n])
				o.Status, o.Msg, o.CrashSig = drive.Classify(e, o.Stack)
			}
		}()
		pkg := drive.NewPackage(u, "main", drive.Opt{}, o)
		cb := pkg.CB()
		tInt := types.Typ[types.Int]
		// func sink(a ...any) {}
		sinkSig := types.NewTuple(pkg.NewParam(token.NoPos, "a", types.NewSlice(gogen.TyEmptyInterface), false))
		pkg.NewFunc(nil, "sink", sinkSig, nil, true).BodyStart(pkg).End()
		pkg.NewFunc(nil, "f", nil, nil, false).BodyStart(pkg)
		check := func(what string, wantLen int, scope *types.Scope, fn *gogen.Func, vb bool) {
			if violation != "" {
				return
			}
			if got := cb.InternalStack().Len(); got != wantLen {
				violation = fmt.Sprintf("%s: operand stack depth %d, documented %d", what, got, wantLen)
			} else if scope != nil && cb.Scope() != scope {
				violation = what + ": Scope() is not the scope that was current before"
			} else if fn != nil && cb.Func() != fn {
				violation = what + ": Func() is not the function that was current before"
			} else if cb.InVBlock() != vb {
				violation = what + ": InVBlock() changed"
			}
			res.Count("assertions", 1)
		}
		fnScope, fnFunc := cb.Scope(), cb.Func()
		for n := 0; n < c.nest; n++ {
			switch n {
			case 0:
				cb.If().Val(true).Then()
			case 1:
				cb.For().Val(true).Then()
			default:
				cb.Switch().Val(1).Then().Case().Val(1).Then()
			}
		}
		base := cb.InternalStack().Len()
		scope, fn, vb := cb.Scope(), cb.Func(), cb.InVBlock()
		cb.Val(pkg.Types.Scope().Lookup("sink"))
		for p := 0; p < c.pending; p++ {
			cb.Val(100 + p)
		}
		var params []*types.Var
		np := c.arity
		if c.variadic {
			np = 1
		}
		for a := 0; a < np; a++ {
			t := types.Type(tInt)
			if c.variadic {
				t = types.NewSlice(tInt)
			}
			params = append(params, pkg.NewParam(token.NoPos, fmt.Sprintf("p%d", a), t, false))
		}
		var results []*types.Var
		for r := 0; r < c.results; r++ {
			results = append(results, pkg.NewParam(token.NoPos, fmt.Sprintf("r%d", r), tInt, false))
		}
		sig := types.NewSignatureType(nil, nil, nil, types.NewTuple(params...), types.NewTuple(results...), c.variadic)
		for a := 0; a < c.arity; a++ {
			cb.Val(10 + a)
		}
		check("before CallInlineClosureStart", base+1+c.pending+c.arity, scope, fn, vb)
		cb.CallInlineClosureStart(sig, c.arity, false)
		for r := 0; r < c.results; r++ {
			cb.Val(7 + r)
		}
		cb.Return(c.results)
		cb.End()
		check("after End() of the inline closure", base+1+c.pending+c.results, scope, fn, vb)
		if violation == "" {
			cb.Call(c.pending + c.results).EndStmt()
			check("after the enclosing statement", base, scope, fn, vb)
		}
		if violation == "" {
			for n := c.nest - 1; n >= 0; n-- {
				if n >= 2 {
					cb.End() // case clause
				}
				cb.End()
			}
			check("after closing the enclosing blocks", 0, fnScope, fnFunc, false)
			cb.End()
		}
		if violation == "" {
			o.Status = "accepted"
			if !o.Write(u, pkg, "main") {
				return
			}
		}
	}()
	switch {
	case violation != "":
		return fail("imbalance", violation)
	case o.Status == "crash":
		return fail("crash: "+o.CrashSig, o.Msg+"\n"+o.Stack)
	case o.Status != "accepted":
		return fail("valid-scenario-rejected", o.Status+": "+o.Msg)
	case len(o.OutErrs) > 0:
		return fail("output-ill-typed", firstN(o.OutErrs, 2)+"\n"+o.Output())
	}
	res.Detail = "stack, scope, function and vblock assertions held; output type-checks"
	return []h.Result{res}
}
