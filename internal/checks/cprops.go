package checks

import (
	"fmt"
	"strings"

	"github.com/goplus/gogen/verif/internal/drive"
	"github.com/goplus/gogen/verif/internal/h"
)

// Judges shared by the atom layer and the program layer of C01/C02/C03/C04/C17.

func baseResult(key string, o *drive.Outcome) h.Result {
	r := h.Result{Key: key, Verdict: h.Held}
	r.Count("operations", int64(o.Ops))
	for k := range o.OpKinds {
		r.Tag("op:" + k)
	}
	r.Tag("status:" + o.Status)
	return r
}

func skipFE(r *h.Result, o *drive.Outcome) bool {
	switch o.Status {
	case "fe":
		r.Verdict, r.Kind, r.Detail = h.Skip, "front-end", o.Msg
		return true
	case "imbalance":
		r.Verdict, r.Kind, r.Detail = h.Skip, "imbalance(see C16)", o.Msg
		return true
	}
	return false
}

func judgeC01(key string, o *drive.Outcome) h.Result {
	r := baseResult(key, o)
	if skipFE(&r, o) {
		return r
	}
	switch o.Status {
	case "crash":
		r.Verdict, r.Kind = h.Skip, "crash(see C17)"
	case "rejected", "write-error":
		r.NonTrivial = !o.SrcValid
		r.Count("rejected", 1)
		if !o.SrcValid {
			r.Count("invalid_rejected", 1)
		}
		r.Detail = "rejected: " + o.Msg
	case "accepted":
		r.Count("accepted_builds_typechecked", 1)
		r.NonTrivial = true
		if len(o.OutErrs) > 0 {
			r.Verdict, r.Kind = h.Violated, "accepted-illtyped"
			r.Detail = "builder accepted, output fails go/types: " + firstN(o.OutErrs, 2) + "\nsource errors: " + firstN(o.SrcErrs, 2) + "\noutput:\n" + o.Output()
		} else if !o.SrcValid {
			r.Count("sugar_accepted_output_welltyped", 1)
			r.Detail = "source is not Go (" + firstN(o.SrcErrs, 1) + ") but the lowered output type-checks"
		} else {
			r.Detail = "accepted; output type-checks"
		}
	}
	return r
}

func funcAtomDump(o *drive.Outcome) string {
	for _, d := range o.DumpDiffs {
		return d
	}
	return ""
}

func judgeC02(key string, o *drive.Outcome) h.Result {
	r := baseResult(key, o)
	if skipFE(&r, o) {
		return r
	}
	if !o.SrcValid {
		r.Verdict, r.Kind = h.Skip, "source-not-valid-go"
		return r
	}
	r.NonTrivial = true
	switch o.Status {
	case "crash":
		r.Verdict, r.Kind = h.Skip, "crash(see C17)"
	case "rejected", "write-error":
		r.Verdict, r.Kind = h.Violated, "rejected-valid"
		r.Detail = "go/types accepts the program; builder reports: " + o.Msg
	case "accepted":
		if len(o.OutErrs) > 0 {
			// a valid program whose emitted form Go rejects is not reproduced (C01 reports the same output as ill-typed)
			r.Verdict, r.Kind = h.Violated, "valid-program-emitted-ill-typed"
			r.Detail = "go/types accepts the program, the builder accepts it, but the emitted package does not type-check: " + firstN(o.OutErrs, 2) + "\noutput:\n" + o.Output()
			return r
		}
		r.Count("dumps_compared", 1)
		switch {
		case len(o.DumpDiffs) > 0:
			r.Verdict = h.Violated
			r.Kind = fmt.Sprintf("dump-diff#%08x", uint32(h.StrHash(strings.Join(o.DumpDiffs, "\n"))))
			r.Detail = "canonical typed dump of output differs from source:\n" + firstN(o.DumpDiffs, 3) + "\noutput:\n" + o.Output()
		case o.OrderDiff != "":
			r.Verdict, r.Kind, r.Detail = h.Violated, "init-order", o.OrderDiff
		default:
			r.Detail = "accepted; canonical typed dumps equal"
		}
	}
	return r
}

func diffStr(d drive.Diff) string { return d.Expr + " builder=" + d.Builder + " go=" + d.Go }

func comparable3(o *drive.Outcome) bool {
	return o.SrcValid && o.Status == "accepted" && len(o.OutErrs) == 0 && len(o.DumpDiffs) == 0
}

func judgeC03(key string, o *drive.Outcome) h.Result {
	r := baseResult(key, o)
	if skipFE(&r, o) {
		return r
	}
	if !o.SrcValid && o.Status == "accepted" && len(o.OutErrs) == 0 && o.NCmpEmit+o.NCmpDecl > 0 {
		// not Go source, but accepted and lowered to valid Go (a language extension): type the syntax the builder holds
		r.Count("emitted_syntax_type_comparisons", int64(o.NCmpEmit))
		r.Count("lowered_declared_object_comparisons", int64(o.NCmpDecl))
		r.NonTrivial = true
		if diffs := append(append([]drive.Diff{}, o.EmitDiffs...), o.TypeDiffs...); len(diffs) > 0 { // TypeDiffs: declared objects
			r.Verdict = h.Violated
			r.Kind = "emitted-type: " + diffStr(diffs[0])
			var ds []string
			for _, d := range diffs {
				ds = append(ds, diffStr(d))
			}
			r.Detail = "input is not valid Go but is accepted and lowered; reported type differs from go/types' type of the syntax the builder holds:\n" + firstN(ds, 4)
		} else {
			r.Detail = fmt.Sprintf("extension lowered to valid Go; %d operand types equal", o.NCmpEmit)
		}
		return r
	}
	if !comparable3(o) {
		r.Verdict, r.Kind = h.Skip, "no-correspondence(see C01/C02/C17)"
		return r
	}
	r.Count("type_comparisons", int64(o.NCmpType))
	r.Count("expr_pairs", int64(o.NExprPairs))
	r.NonTrivial = o.NCmpType > 0
	r.Count("recorder_objects_compared", int64(o.NCmpRec))
	if len(o.TypeDiffs) > 0 {
		r.Verdict = h.Violated
		r.Kind = "type: " + diffStr(o.TypeDiffs[0])
		var ds []string
		for _, d := range o.TypeDiffs {
			ds = append(ds, diffStr(d))
		}
		r.Detail = "reported type differs from go/types' context-free type of the emitted expression:\n" + firstN(ds, 4)
	} else if len(o.RecDiffs) > 0 {
		r.Verdict = h.Violated
		r.Kind = "recorder: " + diffStr(o.RecDiffs[0])
		var ds []string
		for _, d := range o.RecDiffs {
			ds = append(ds, diffStr(d))
		}
		r.Detail = "the object handed to Recorder.Member is not the member go/types selects for the same source node:\n" + firstN(ds, 4)
	} else {
		r.Detail = fmt.Sprintf("%d sub-expression types equal", o.NCmpType)
	}
	return r
}

func judgeC04(key string, o *drive.Outcome) h.Result {
	r := baseResult(key, o)
	if skipFE(&r, o) {
		return r
	}
	if o.Status == "accepted" && len(o.FoldedBad) > 0 {
		r.NonTrivial = true
		r.Verdict = h.Violated
		r.Kind = "folded: " + diffStr(o.FoldedBad[0])
		var ds []string
		for _, d := range o.FoldedBad {
			ds = append(ds, diffStr(d))
		}
		r.Detail = "builder carries a compile-time value where Go has none:\n" + firstN(ds, 4)
		return r
	}
	if !comparable3(o) {
		r.Verdict, r.Kind = h.Skip, "no-correspondence(see C01/C02/C17)"
		return r
	}
	r.Count("const_comparisons", int64(o.NCmpCVal))
	r.NonTrivial = o.NCmpCVal > 0
	if len(o.CValDiffs) > 0 {
		r.Verdict = h.Violated
		r.Kind = "cval: " + diffStr(o.CValDiffs[0])
		var ds []string
		for _, d := range o.CValDiffs {
			ds = append(ds, diffStr(d))
		}
		r.Detail = "compile-time value differs from go/types:\n" + firstN(ds, 4)
	} else {
		r.Detail = fmt.Sprintf("%d constant/non-constant verdicts and values equal", o.NCmpCVal)
	}
	return r
}

func judgeC17(key string, o *drive.Outcome) h.Result {
	r := baseResult(key, o)
	if o.Status == "fe" {
		r.Verdict, r.Kind, r.Detail = h.Skip, "front-end", o.Msg
		return r
	}
	r.NonTrivial = true
	if o.SrcValid {
		r.Count("valid_go_cases", 1)
	}
	switch o.Status {
	case "crash":
		r.Verdict, r.Kind = h.Violated, "crash: "+o.CrashSig
		r.Detail = o.Msg + "\n" + o.Stack
	case "rejected", "write-error":
		r.Count("reported_errors", 1)
		r.Detail = "reported: " + o.Msg
	default:
		r.Detail = o.Status
	}
	return r
}

// atomCheckDef registers a check whose cases are batches of catalogue atoms followed by extra cases.
type atomCheckDef struct {
	id       string
	cats     []string
	cfgs     []string
	per      int
	filter   func(tier string) func(a interface{ Text() string }) bool
	judge    func(key string, o *drive.Outcome) h.Result
	noComp   bool
	extraN   func(tier string) int
	extraRun func(tier string, seed uint64, i int) []h.Result
}

func (d *atomCheckDef) plan(tier string, seed uint64) []atomCase {
	return cachedPlan(d.id, tier, seed, func() []atomCase { return atomPlan(tier, seed, d.cats, d.cfgs, d.per, nil) })
}

func (d *atomCheckDef) nAtomCases(tier string, seed uint64) int {
	return (len(d.plan(tier, seed)) + atomBatch - 1) / atomBatch
}

func (d *atomCheckDef) Plan(tier string, seed uint64) int {
	n := d.nAtomCases(tier, seed)
	if d.extraN != nil {
		n += d.extraN(tier)
	}
	return n
}

func (d *atomCheckDef) Run(tier string, seed uint64, i int) []h.Result {
	na := d.nAtomCases(tier, seed)
	if i >= na {
		return d.extraRun(tier, seed, i-na)
	}
	p := d.plan(tier, seed)
	var out []h.Result
	for k := i * atomBatch; k < (i+1)*atomBatch && k < len(p); k++ {
		o := runAtom(p[k], d.noComp)
		r := d.judge(atomKey(p[k]), o)
		r.Tag("cat:" + p[k].atom.Cat)
		if verbose() {
			r.Input = p[k].atom.Program()
			r.Detail += "\n" + o.Summary()
		}
		out = append(out, r)
	}
	return out
}

func (d *atomCheckDef) Describe(tier string, seed uint64, i int) string {
	na := d.nAtomCases(tier, seed)
	if i >= na {
		return fmt.Sprintf("extra case %d", i-na)
	}
	p := d.plan(tier, seed)
	var ks []string
	for k := i * atomBatch; k < (i+1)*atomBatch && k < len(p); k++ {
		ks = append(ks, atomKey(p[k]))
	}
	return "batch of atoms (a fatal error cannot be attributed more precisely): " + strings.Join(ks, " ;; ")
}
