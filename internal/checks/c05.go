package checks

import (
	"fmt"
	"go/ast"
	"go/constant"
	"go/token"
	"go/types"
	"strings"
	"sync"

	"github.com/goplus/gogen"
	"github.com/goplus/gogen/verif/internal/drive"
	"github.com/goplus/gogen/verif/internal/h"
	"github.com/goplus/gogen/verif/internal/ref"
)

// C05 — assignability / comparability / convertibility verdicts match the Go spec (DESIGN.md §2 C05).
// Reference verdicts: go/types on the one-statement programs `var _ T = v`, `_ = v == w`, `_ = T(v)`.

var c05Types = []string{"bool", "int", "int8", "int16", "int32", "int64", "uint", "uint8", "uint16", "uint32", "uint64", "uintptr", "float32", "float64", "complex64", "complex128", "string",
	"unsafe.Pointer", "MyInt", "MyU8", "MyStr", "MyF", "MyBool", "MyCx", "*int", "*MyInt", "*MyStruct", "[]int", "[]byte", "[]MyInt", "MySlice", "[3]int", "[2]int", "MyArr", "[3]MyInt",
	"map[string]int", "MyMap", "chan int", "<-chan int", "chan<- int", "MyChan", "func(int) int", "func()", "MyFunc", "struct{A int; B string}", "MyStruct", "struct{}", "struct{F []int}",
	"any", "error", "MyIface", "interface{M() int; N()}", "AliasInt", "AliasStruct", "[]any", "*[3]int", "MyPtr", "rune", "byte", "interface{ comparableMarker() }"}

const c05Decls = `
type MyInt int
type MyU8 uint8
type MyStr string
type MyF float64
type MyBool bool
type MyCx complex128
type MySlice []int
type MyArr [3]int
type MyMap map[string]int
type MyChan chan int
type MyFunc func(int) int
type MyPtr *int
type MyStruct struct {
	A int
	B string
}
type MyIface interface{ M() int }
type AliasInt = int
type AliasStruct = MyStruct
func (MyInt) M() int { return 0 }
func (*MyStruct) M() int { return 0 }
`

type c05Const struct {
	text string
	kind types.BasicKind
}

func c05Consts() []c05Const {
	var out []c05Const
	add := func(k types.BasicKind, ts ...string) {
		for _, t := range ts {
			out = append(out, c05Const{t, k})
		}
	}
	add(types.UntypedInt, "0", "1", "-1", "127", "128", "-128", "-129", "255", "256", "32767", "32768", "-32768", "-32769", "65535", "65536", "2147483647", "2147483648", "-2147483648", "-2147483649",
		"4294967295", "4294967296", "9223372036854775807", "9223372036854775808", "-9223372036854775808", "-9223372036854775809", "18446744073709551615", "18446744073709551616", "1267650600228229401496703205376")
	add(types.UntypedFloat, "0.0", "1.0", "2.5", "-0.5", "255.0", "256.0", "1e38", "1e39", "1e308", "1e309", "1e-400", "16777217.0", "9007199254740993.0", "-128.0", "3.0e9")
	add(types.UntypedRune, "'a'", "'\\x00'", "'\\u00ff'", "'\\u0100'", "'\\U0010ffff'")
	add(types.UntypedString, "\"s\"", "\"\"")
	add(types.UntypedBool, "true", "false")
	add(types.UntypedComplex, "1i", "0i", "(1 + 0i)", "(2.5 + 0i)", "(300 + 0i)", "(1e39 + 0i)")
	add(types.UntypedNil, "nil")
	return out
}

type c05World struct {
	u     *ref.Universe
	pkg   *types.Package
	typ   []types.Type
	gpkg  *gogen.Package
	cvals []constant.Value
}

var (
	c05Once sync.Once
	c05W    *c05World
	c05Ref  map[string]bool // probe key -> Go accepts
	c05RefE map[string]string
)

func c05Setup() {
	c05Once.Do(func() {
		u := sharedUniverse()
		var sb strings.Builder
		sb.WriteString("package grid\nimport \"unsafe\"\nvar _ unsafe.Pointer\n" + c05Decls)
		for i, t := range c05Types {
			fmt.Fprintf(&sb, "var v%d %s\n", i, t)
		}
		consts := c05Consts()
		// probes, one per line, each in its own function so that errors do not interact
		type probe struct{ key, stmt string }
		var probes []probe
		for i := range c05Types {
			for j, t := range c05Types {
				probes = append(probes, probe{fmt.Sprintf("assign v%d->%d", i, j), fmt.Sprintf("var _ %s = v%d", t, i)})
				probes = append(probes, probe{fmt.Sprintf("conv v%d->%d", i, j), fmt.Sprintf("_ = (%s)(v%d)", t, i)})
				if i <= j {
					probes = append(probes, probe{fmt.Sprintf("cmp v%d==v%d", i, j), fmt.Sprintf("_ = v%d == v%d", i, j)})
				}
			}
			for k, c := range consts {
				probes = append(probes, probe{fmt.Sprintf("assignc c%d->%d", k, i), fmt.Sprintf("var _ %s = %s", c05Types[i], c.text)})
				probes = append(probes, probe{fmt.Sprintf("cmpc c%d==v%d", k, i), fmt.Sprintf("_ = %s == v%d", c.text, i)})
			}
		}
		for k, c := range consts {
			for l, d := range consts {
				if k <= l {
					probes = append(probes, probe{fmt.Sprintf("cmpcc c%d==c%d", k, l), fmt.Sprintf("_ = %s == %s", c.text, d.text)})
				}
			}
		}
		base := strings.Count(sb.String(), "\n") + 1
		for _, p := range probes {
			sb.WriteString("func _() { " + p.stmt + " }\n")
		}
		ck := u.Check("grid", sb.String())
		c05Ref = map[string]bool{}
		c05RefE = map[string]string{}
		bad := map[int]string{}
		for _, e := range ck.AllErrs {
			ln := u.Fset.Position(e.Pos).Line
			if _, ok := bad[ln]; !ok {
				bad[ln] = e.Msg
			}
		}
		for i, p := range probes {
			msg, isBad := bad[base+i]
			c05Ref[p.key] = !isBad
			if isBad {
				c05RefE[p.key] = msg
			}
		}
		w := &c05World{u: u, pkg: ck.Pkg}
		for i := range c05Types {
			w.typ = append(w.typ, ck.Pkg.Scope().Lookup(fmt.Sprintf("v%d", i)).Type())
		}
		for _, c := range consts {
			tv, err := types.Eval(u.Fset, ck.Pkg, token.NoPos, c.text)
			if err != nil {
				panic("c05 constant " + c.text + ": " + err.Error())
			}
			w.cvals = append(w.cvals, tv.Value)
		}
		w.gpkg = gogen.NewPackage("grid", "grid", &gogen.Config{Fset: u.Fset, Importer: u})
		c05W = w
	})
}

func c05GridCases() int { return len(c05Types) } // one case per source type / constant block

func c05Elem(t types.Type, cv constant.Value, text string) *gogen.Element {
	return &gogen.Element{Val: &ast.Ident{Name: text}, Type: t, CVal: cv}
}

func guard(f func() bool) (res bool, crash string) {
	defer func() {
		if e := recover(); e != nil {
			crash = fmt.Sprint(e)
		}
	}()
	return f(), ""
}

func c05Grid(i int) []h.Result {
	c05Setup()
	w := c05W
	consts := c05Consts()
	var out []h.Result
	emit := func(key, descr string, got bool, crash string) {
		want := c05Ref[key]
		r := h.Result{Key: descr, Verdict: h.Held, NonTrivial: true}
		r.Count("grid_points", 1)
		switch {
		case crash != "":
			r.Verdict, r.Kind, r.Detail = h.Violated, "predicate-panic", crash
		case got != want:
			r.Verdict = h.Violated
			r.Kind = fmt.Sprintf("builder=%v go=%v", got, want)
			r.Detail = fmt.Sprintf("predicate says %v, Go says %v (%s)", got, want, c05RefE[key])
		default:
			r.Detail = fmt.Sprintf("both %v", got)
		}
		out = append(out, r)
	}
	V := w.typ[i]
	for j, T := range w.typ {
		got, crash := guard(func() bool { return gogen.AssignableTo(w.gpkg, V, T) })
		emit(fmt.Sprintf("assign v%d->%d", i, j), "AssignableTo("+c05Types[i]+", "+c05Types[j]+")", got, crash)
		got, crash = guard(func() bool { return gogen.ConvertibleTo(w.gpkg, V, T) })
		emit(fmt.Sprintf("conv v%d->%d", i, j), "ConvertibleTo("+c05Types[i]+", "+c05Types[j]+")", got, crash)
		a, b := c05Elem(V, nil, "a"), c05Elem(T, nil, "b")
		ab, crash1 := guard(func() bool { return gogen.ComparableTo(w.gpkg, a, b) })
		ba, crash2 := guard(func() bool { return gogen.ComparableTo(w.gpkg, b, a) })
		key := fmt.Sprintf("cmp v%d==v%d", i, j)
		if i > j {
			key = fmt.Sprintf("cmp v%d==v%d", j, i)
		}
		emit(key, "ComparableTo("+c05Types[i]+", "+c05Types[j]+")", ab, crash1+crash2)
		if crash1+crash2 == "" && ab != ba {
			out = append(out, h.Result{Key: "ComparableTo symmetry " + c05Types[i] + " / " + c05Types[j], Verdict: h.Violated, Kind: "asymmetric", Detail: fmt.Sprintf("ComparableTo(a,b)=%v ComparableTo(b,a)=%v", ab, ba), NonTrivial: true})
		}
	}
	for k, c := range consts {
		ut := types.Typ[c.kind]
		el := c05Elem(ut, w.cvals[k], c.text)
		got, crash := guard(func() bool { return gogen.AssignableConv(w.gpkg, ut, V, el) })
		emit(fmt.Sprintf("assignc c%d->%d", k, i), "AssignableConv(const "+c.text+" -> "+c05Types[i]+")", got, crash)
		a, b := c05Elem(ut, w.cvals[k], c.text), c05Elem(V, nil, "b")
		ab, crash1 := guard(func() bool { return gogen.ComparableTo(w.gpkg, a, b) })
		ba, crash2 := guard(func() bool { return gogen.ComparableTo(w.gpkg, b, a) })
		emit(fmt.Sprintf("cmpc c%d==v%d", k, i), "ComparableTo(const "+c.text+", "+c05Types[i]+")", ab, crash1+crash2)
		if crash1+crash2 == "" && ab != ba {
			out = append(out, h.Result{Key: "ComparableTo symmetry const " + c.text + " / " + c05Types[i], Verdict: h.Violated, Kind: "asymmetric", Detail: fmt.Sprintf("ComparableTo(c,v)=%v ComparableTo(v,c)=%v", ab, ba), NonTrivial: true})
		}
	}
	if i == 0 { // constant x constant comparability, Default
		for k, c := range consts {
			for l, d := range consts {
				if k > l {
					continue
				}
				a, b := c05Elem(types.Typ[c.kind], w.cvals[k], c.text), c05Elem(types.Typ[d.kind], w.cvals[l], d.text)
				ab, crash1 := guard(func() bool { return gogen.ComparableTo(w.gpkg, a, b) })
				ba, crash2 := guard(func() bool { return gogen.ComparableTo(w.gpkg, b, a) })
				emit(fmt.Sprintf("cmpcc c%d==c%d", k, l), "ComparableTo(const "+c.text+", const "+d.text+")", ab, crash1+crash2)
				if crash1+crash2 == "" && ab != ba {
					out = append(out, h.Result{Key: "ComparableTo symmetry const " + c.text + " / const " + d.text, Verdict: h.Violated, Kind: "asymmetric", Detail: fmt.Sprintf("%v vs %v", ab, ba), NonTrivial: true})
				}
			}
		}
		for j, T := range w.typ {
			r := h.Result{Key: "Default(" + c05Types[j] + ")", Verdict: h.Held, NonTrivial: true}
			got := gogen.Default(w.gpkg, T)
			if !types.Identical(got, types.Default(T)) {
				r.Verdict, r.Kind, r.Detail = h.Violated, "default", fmt.Sprintf("Default=%v go=%v", got, types.Default(T))
			}
			out = append(out, r)
		}
		for k := types.UntypedBool; k <= types.UntypedNil; k++ {
			T := types.Typ[k]
			r := h.Result{Key: "Default(" + T.String() + ")", Verdict: h.Held, NonTrivial: true}
			got := gogen.Default(w.gpkg, T)
			if !types.Identical(got, types.Default(T)) {
				r.Verdict, r.Kind, r.Detail = h.Violated, "default", fmt.Sprintf("Default=%v go=%v", got, types.Default(T))
			}
			out = append(out, r)
		}
	}
	return out
}

// construct layer: the same (value, target) pair asked through every construct (assign catalogue).
func judgeC05Construct(key string, o *drive.Outcome) h.Result {
	r := baseResult(key, o)
	if skipFE(&r, o) {
		return r
	}
	if o.Status == "crash" {
		r.Verdict, r.Kind = h.Skip, "crash(see C17)"
		return r
	}
	r.NonTrivial = true
	accepted := o.Status == "accepted"
	r.Count("construct_points", 1)
	if accepted != o.SrcValid {
		if accepted && len(o.OutErrs) == 0 {
			r.Detail = "accepted through a documented extension; output type-checks"
			return r
		}
		r.Verdict = h.Violated
		r.Kind = fmt.Sprintf("construct: builder-accepts=%v go-accepts=%v", accepted, o.SrcValid)
		r.Detail = "builder: " + o.Status + " " + o.Msg + "; go/types: " + firstN(o.SrcErrs, 1)
	}
	return r
}

var c05def = &atomCheckDef{id: "C05", cats: []string{"assign", "compare", "conv"}, cfgs: []string{"default"}, per: 1, judge: judgeC05Construct, noComp: true}

func init() {
	c05def.extraN = func(string) int { return c05GridCases() }
	c05def.extraRun = func(tier string, seed uint64, i int) []h.Result { return c05Grid(i) }
	h.Register(&h.Check{
		ID: "C05", Level: "exploration",
		Rule: "predicate grid (complete in BOTH tiers): closed universe of 60 types (every basic type, unsafe.Pointer, named/pointer/slice/array/map/chan(3 directions)/func/struct/interface/alias forms) as ordered pairs for AssignableTo and ConvertibleTo, " +
			"unordered pairs in both argument orders for ComparableTo (symmetry), crossed with 67 untyped constants at every integer-type boundary +-1, float32/float64 overflow and exactness boundaries, runes, strings, bools, complex with zero/non-zero imaginary part, nil and a > 64-bit integer " +
			"for AssignableConv(constant) and ComparableTo; Default on every type. Reference verdicts: go/types on `var _ T = v`, `_ = v == w`, `_ = T(v)` generated into one file. construct layer: the assign/compare/conversion atom catalogues " +
			"(value x target through var-init, assignment, argument, return, slice element, struct field, map value, send; comparisons and case clauses; conversions): the builder's accept/reject must equal Go's for every construct " +
			"(thorough: complete; quick: stratified sample). non-trivial = a verdict pair was compared; distinct by grid point / atom text",
		Assume: []string{"go/types decides assignability, comparability, convertibility and constant representability", "default configuration only (no CanImplicitCast, no _Init/_Cast fixtures): documented extensions of the relation are out of scope"},
		MinNT:  1000, Plan: c05def.Plan, Run: c05def.Run, Describe: c05def.Describe,
		Exhaustive: func(tier string) bool { return tier == "thorough" },
	})
}
