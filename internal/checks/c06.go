package checks

import (
	"fmt"
	"strings"

	"github.com/goplus/gogen/verif/internal/drive"
	"github.com/goplus/gogen/verif/internal/h"
	"github.com/goplus/gogen/verif/internal/ref"
)

// C06 — overload resolution picks the first applicable candidate and leaves no residue (DESIGN.md §2 C06).
// Fixture packages are generated as Go source (F__0.., methods M__0..), type-checked by go/types and handed to gogen
// through the importer. Model of applicability: go/types on the plain call of each candidate, in index order.

var c06Params = []string{"a int", "a string", "a float64", "a any", "a ...int", "a int, b string", "a MyN", "f func(int)", "a []int", "a int, b ...string", "a *int", "a, b int",
	"a int8", "a uint8", "", "a error", "a map[string]int", "f func(int) int", "a bool", "a ...any", "a float32", "a []byte", "a string, b ...any", "a rune",
	// Lv has an implicit conversion from int (Lv_Init): a candidate that takes it rewrites the ARGUMENT EXPRESSION (not its type)
	// before it can fail on a later parameter — the residue case for backupArgs/restoreArgs
	"a Lv, b string", "a Lv", "a Lv, b ...string", "a Lv, b Lv", "a string, b Lv"}

var c06Generic = []string{"[T any](a T)", "[T int | string](a, b T)", "[T any](a []T)", "[T comparable](a, b T)", "[K comparable, V any](m map[K]V)", "[T any](f func(T))", "[T ~int](a T)"}

// (generic function values as arguments and variadic generic candidates are decided at C07's atom layer: both have
// recorded findings there and would otherwise be re-reported through every family that contains them)
var c06Args = []string{"", "1", `"s"`, "2.5", "i", "s", "f64", `1, "s"`, "1, 2", "i, i", "nil", "sl", "sl...", "func(int) {}", "func(x int) int { return x }", "&i", "e", "m", `1, "a", "b"`, "200", "'a'",
	"i8", "mn", "true", "1.0", "-1", "i, s", "1, 2.5", `"a", "b"`, "bs", "i8, i8", "mn, mn", "fxo.MyN(3)", "300", "1 << 40", "i, 1", "1, i", "sl, sl", "nil, nil", `s, 1, "x"`}

const c06Env = `
var (
	i   int
	s   string
	f64 float64
	sl  []int
	bs  []byte
	e   error
	m   map[string]int
	i8  int8
	mn  fxo.MyN
	t   fxo.T
	pt  *fxo.T
	it  fxo.I
)

func gf[T any](x T) {}
`

type c06Family struct {
	path  string
	src   string
	ncand int
	sigs  []string
	msigs map[bool][]string // parameter lists: [true] of the functions F__i, [false] of the methods M__i
	// names of the candidates in index order: F__k / M__k, or arbitrary names bound by an explicit XGoo_ list
	fnames, mnames []string
	variant        string
}

// splitArgs splits a comma separated argument list at top level.
func splitArgs(s string) []string {
	if strings.TrimSpace(s) == "" {
		return nil
	}
	var out []string
	depth, start := 0, 0
	for i, c := range s {
		switch c {
		case '(', '{', '[':
			depth++
		case ')', '}', ']':
			depth--
		case ',':
			if depth == 0 {
				out = append(out, strings.TrimSpace(s[start:i]))
				start = i + 1
			}
		}
	}
	return append(out, strings.TrimSpace(s[start:]))
}

// wrapInit rewrites the arguments at the positions of Lv parameters to fxo.Lv_Init(arg); "" if sig has no Lv parameter.
func wrapInit(sig, args string) string {
	if !strings.Contains(sig, "Lv") || strings.HasPrefix(sig, "[") {
		return ""
	}
	ps := splitArgs(strings.Trim(sig, "()"))
	as := splitArgs(args)
	if strings.HasSuffix(args, "...") {
		return ""
	}
	changed := false
	for i := range as {
		pi := i
		if pi >= len(ps) {
			pi = len(ps) - 1
		}
		if pi < 0 {
			break
		}
		f := strings.Fields(ps[pi])
		if len(f) > 0 && f[len(f)-1] == "Lv" {
			as[i] = "fxo.Lv_Init(" + as[i] + ")"
			changed = true
		}
	}
	if !changed {
		return ""
	}
	return strings.Join(as, ", ")
}

func c06Fixture(r *h.Rand, path string) c06Family {
	n := 1 + r.Intn(6)
	if r.Chance(12) {
		n = 10 + r.Intn(4) // indices beyond 9 are spelled a, b, c, … (F__a)
	}
	explicit := r.Chance(35) // explicit lists: const XGoo_F = "AltF0,,AltF2" (an empty slot means F__<index>)
	var sb strings.Builder
	sb.WriteString("package fxo\n\nconst XGoPackage = true\n\ntype MyN int\ntype T struct{ V int }\ntype Lv struct{ N int }\nfunc Lv_Init(v int) Lv { return Lv{v} }\n")
	fam := c06Family{path: path, ncand: n, msigs: map[bool][]string{}}
	var ifaceMethods, fslots, mslots []string
	for k := 0; k < n; k++ {
		var sig string
		if r.Chance(25) {
			sig = h.Pick(r, c06Generic)
		} else {
			sig = "(" + h.Pick(r, c06Params) + ")"
		}
		fam.sigs = append(fam.sigs, sig)
		fam.msigs[true] = append(fam.msigs[true], sig)
		const idx = "0123456789abcdefghijklmnopqrstuvwxyz"
		fname, mname := "F__"+idx[k:k+1], "M__"+idx[k:k+1]
		fslot, mslot := "", ""
		if explicit && r.Chance(65) {
			fname = fmt.Sprintf("AltF%dx", k)
			fslot = fname
		}
		if explicit && r.Chance(65) {
			mname = fmt.Sprintf("AltM%dx", k)
			mslot = "." + mname
		}
		fam.fnames, fam.mnames = append(fam.fnames, fname), append(fam.mnames, mname)
		fslots, mslots = append(fslots, fslot), append(mslots, mslot)
		fmt.Fprintf(&sb, "type RF%d int\nfunc %s%s (r RF%d) { return }\n", k, fname, sig, k)
		msig := sig
		if strings.HasPrefix(sig, "[") { // methods cannot be generic
			msig = "(" + h.Pick(r, c06Params) + ")"
		}
		fam.msigs[false] = append(fam.msigs[false], msig)
		recv := "T"
		if r.Chance(40) {
			recv = "*T"
		}
		fmt.Fprintf(&sb, "type RM%d int\nfunc (p %s) %s%s (r RM%d) { return }\n", k, recv, mname, msig, k)
		ifaceMethods = append(ifaceMethods, fmt.Sprintf("\t%s%s (r RM%d)", mname, msig, k))
	}
	if explicit {
		fam.variant = " explicit-lists"
		fmt.Fprintf(&sb, "const XGoo_F = %q\nconst XGoo_T_M = %q\nconst XGoo_I_M = %q\n", strings.Join(fslots, ","), strings.Join(mslots, ","), strings.Join(mslots, ","))
	}
	if n > 9 {
		fam.variant += " many-candidates"
	}
	sb.WriteString("type I interface {\n" + strings.Join(ifaceMethods, "\n") + "\n}\n")
	fam.src = sb.String()
	return fam
}

func c06N(tier string) int {
	if tier == "thorough" {
		return 2500
	}
	return 60
}

func c06Prog(path, stmt string) string {
	return "package main\n\nimport fxo \"" + path + "\"\n" + c06Env + "\nfunc probe() {\n\t" + stmt + "\n}\n"
}

// c06Call is one overloaded use: the statement templates contain %s where the callee expression goes.
type c06Call struct {
	key     string   // result key
	over    string   // statement using the overloaded name, e.g. `_ = fxo.F(1)`
	direct  []string // for each candidate in index order: the statement naming that candidate, e.g. `_ = fxo.F__0(1)`
	alt     []string // optional second spelling per candidate that also counts as "accepts" (implicit T_Init conversion); "" if none
	names   []string // candidate names as they appear in the emitted call (short, without qualifier)
	sigs    []string
	defStmt func(stmt string) string // turns `_ = X` into `v := X; _ = v`; nil if the use has no result
	plain   string                   // if non-empty: a statement of plain Go that takes precedence when Go accepts it (conversion before T_Cast)
}

func c06Decide(u *ref.Universe, path, famSrc string, c c06Call) h.Result {
	want := -1
	for k := range c.direct {
		if ck := u.Check("main", c06Prog(path, c.direct[k])); len(ck.Errs) == 0 {
			want = k
			break
		}
		// documented extension: a parameter of a type T with T_Init accepts what T_Init accepts (implicit conversion)
		if k < len(c.alt) && c.alt[k] != "" {
			if ck := u.Check("main", c06Prog(path, c.alt[k])); len(ck.Errs) == 0 {
				want = k
				break
			}
		}
	}
	o := drive.Build(u, []string{c06Prog(path, c.over)}, drive.Opt{NoCompare: true})
	res := h.Result{Key: c.key, Verdict: h.Held}
	if o.Status == "fe" || o.Status == "imbalance" {
		res.Verdict, res.Kind, res.Detail = h.Skip, o.Status, o.Msg
		return res
	}
	res.NonTrivial = true
	res.Count("overloaded_calls", 1)
	res.Tag(fmt.Sprintf("expected:%d", want))
	got := -1
	probe := probeFunc(o.Output())
	if o.Status == "accepted" {
		for k, n := range c.names {
			if strings.Contains(probe, n+"(") {
				got = k
			}
		}
	}
	fail := func(kind, detail string) {
		res.Verdict, res.Kind = h.Violated, kind
		res.Detail = detail
		res.Input = famSrc + "\n// ---- caller ----\n" + c06Prog(path, c.over)
	}
	switch {
	case o.Status == "crash":
		fail("crash: "+o.CrashSig, o.Msg+"\n"+o.Stack)
	case want < 0 && o.Status == "accepted" && len(o.OutErrs) > 0:
		fail("no-candidate-applies-but-accepted", fmt.Sprintf("Go accepts none of the %d candidates; builder emitted %s (%s)", len(c.direct), probe, firstN(o.OutErrs, 1)))
	case want < 0 && o.Status == "accepted":
		res.Count("accepted_via_extension", 1)
	case want < 0:
		res.Count("rejected_no_candidate", 1)
	case o.Status != "accepted":
		fail("applicable-candidate-rejected", fmt.Sprintf("candidate %d (%s) accepts the arguments under Go's rules; builder reports: %s", want, c.sigs[want], o.Msg))
	case got != want:
		fail(fmt.Sprintf("wrong-candidate: chose %d expected %d", got, want), fmt.Sprintf("first applicable candidate is %d (%s); emitted: %s", want, c.sigs[want], probe))
	case len(o.OutErrs) > 0:
		fail("chosen-call-ill-typed", firstN(o.OutErrs, 2)+"\n"+probe)
	default:
		// residue: the emitted call must be what a direct call of the chosen candidate emits
		twin := drive.Build(u, []string{c06Prog(path, c.direct[want])}, drive.Opt{NoCompare: true})
		if twin.Status == "accepted" {
			if tp := probeFunc(twin.Output()); tp != probe {
				fail("residue", "emitted call differs from the call emitted when only the chosen candidate is named:\n  overloaded: "+probe+"\n  direct:     "+tp)
				break
			}
			if twin.Output() != o.Output() {
				fail("residue-outside-call", "files differ outside the call (import table / declarations)")
				break
			}
			res.Count("twin_compared", 1)
		}
		// recorder must name the chosen object
		okRec := false
		for _, ev := range o.RecEvents {
			if ev.Kind == "call" && ev.Obj != nil && ev.Obj.Name() == c.names[want] {
				okRec = true
			}
		}
		if !okRec {
			var names []string
			for _, ev := range o.RecEvents {
				if ev.Kind == "call" && ev.Obj != nil {
					names = append(names, ev.Obj.Name())
				}
			}
			fail("recorder-call", fmt.Sprintf("Recorder.Call objects %v do not include %s", names, c.names[want]))
			break
		}
		// result type: `v := call` — the type the builder reports for the call and declares for v must be the chosen
		// candidate's result type (go/types on the emitted package, which names the concrete candidate)
		if c.defStmt != nil {
			rt := drive.Build(u, []string{c06Prog(path, c.defStmt(c.over))}, drive.Opt{})
			if rt.Status == "accepted" && len(rt.OutErrs) == 0 {
				if ds := append(append([]drive.Diff{}, rt.EmitDiffs...), rt.TypeDiffs...); len(ds) > 0 {
					fail("result-type: "+diffStr(ds[0]), "reported type of the overloaded call / of the variable declared from it differs from the chosen candidate's:\n"+probeFunc(rt.Output()))
					break
				}
				if rt.NCmpEmit+rt.NCmpDecl > 0 {
					res.Count("result_types_compared", int64(rt.NCmpEmit+rt.NCmpDecl))
				}
			} else if rt.Status != "fe" {
				fail("define-from-overloaded-call", fmt.Sprintf("`_ = call` is accepted but `v := call` is not (%s %s %s)", rt.Status, rt.Msg, firstN(rt.OutErrs, 1)))
				break
			}
		}
		res.Count("resolved_as_expected", 1)
	}
	return res
}

func c06Define(stmt string) string { return "v := " + strings.TrimPrefix(stmt, "_ = ") + "; _ = v" }

func c06Run(tier string, seed uint64, i int) []h.Result {
	r := h.NewRand(seed, 6, uint64(i))
	u := sharedUniverse()
	path := fmt.Sprintf("fx/ov/s%d/c%d", seed, i)
	if i%4 == 3 {
		return c06ExtRun(r, u, path)
	}
	fam := c06Fixture(r, path)
	u.AddSource(path, fam.src)
	if _, err := u.Import(path); err != nil {
		return []h.Result{{Key: "family " + path, Verdict: h.Skip, Kind: "fixture-invalid", Detail: err.Error() + "\n" + fam.src}}
	}
	var out []h.Result
	for _, callee := range []string{"fxo.F", "t.M", "pt.M", "it.M"} { // (methods on non-addressable operands: see C08)
		base := callee[:len(callee)-1]
		names := fam.fnames
		sigs := fam.msigs[true]
		if callee != "fxo.F" {
			names, sigs = fam.mnames, fam.msigs[false]
		}
		for _, args := range c06Args {
			c := c06Call{over: fmt.Sprintf("_ = %s(%s)", callee, args), names: names, sigs: sigs, defStmt: c06Define}
			c.key = fmt.Sprintf("family{%s}%s call %s", strings.Join(fam.sigs, " ; "), fam.variant, c.over)
			for k := 0; k < fam.ncand; k++ {
				c.direct = append(c.direct, fmt.Sprintf("_ = %s%s(%s)", base, names[k], args))
				alt := ""
				if w := wrapInit(sigs[k], args); w != "" {
					alt = fmt.Sprintf("_ = %s%s(%s)", base, names[k], w)
				}
				c.alt = append(c.alt, alt)
			}
			out = append(out, c06Decide(u, path, fam.src, c))
		}
	}
	return out
}

func init() {
	h.Register(&h.Check{
		ID: "C06", Level: "exploration",
		Rule: "random overload families of 1-6 (one in eight: 10-13, indices a, b, c) candidates, named by suffix (F__k) or bound by explicit lists `const XGoo_F = \"AltF0x,,AltF2x\"` / XGoo_T_M / XGoo_I_M with empty slots; every fourth family instead overloads an operator (V.XGo_<Op>__k for one of 19 binary operators), an assignment operator ((*V).XGo_<Op>Assign__k) and the cast V(args) (V_Cast__k), used with 26 operands; (parameter palette: fixed, variadic, any, named numeric, func types, pointers, slices, maps, generic signatures with any/union/comparable/~ constraints) generated as Go source (functions F__i, methods M__i on value or pointer receivers, " +
			"interface methods) and imported through the shared importer; 41 argument lists (untyped constants incl. out-of-range ones, typed variables, nil, slices with ..., function literals, generic function values, multiple arguments) x 5 callee forms (package function, method on addressable value, " +
			"on pointer, on interface value, on composite literal). Model: for each candidate in index order go/types checks the plain call; the first success is the expected choice. Oracles: emitted callee = expected candidate (or rejection when none applies), output type-checks, " +
			"emitted file is byte-identical to the file emitted for a direct call of the chosen candidate (no residue of rejected candidates in arguments, types, imports), Recorder.Call names the chosen object, and for `v := call` the reported type of the call and the declared type of v equal go/types' for the emitted (concrete) call. non-trivial = call decided; distinct by family signature + call",
		Assume: []string{"go/types applicability of each concrete candidate is the reference for 'accepts the arguments under Go's call rules'", "default configuration"},
		MinNT:  500,
		Plan:   func(tier string, seed uint64) int { return c06N(tier) },
		Run:    c06Run,
	})
}
