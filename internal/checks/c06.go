package checks

import (
	"fmt"
	"strings"

	"github.com/goplus/gogen/verif/internal/drive"
	"github.com/goplus/gogen/verif/internal/h"
)

// C06 — overload resolution picks the first applicable candidate and leaves no residue (DESIGN.md §2 C06).
// Fixture packages are generated as Go source (F__0.., methods M__0..), type-checked by go/types and handed to gogen
// through the importer. Model of applicability: go/types on the plain call of each candidate, in index order.

var c06Params = []string{"a int", "a string", "a float64", "a any", "a ...int", "a int, b string", "a MyN", "f func(int)", "a []int", "a int, b ...string", "a *int", "a, b int",
	"a int8", "a uint8", "", "a error", "a map[string]int", "f func(int) int", "a bool", "a ...any", "a float32", "a []byte", "a string, b ...any", "a rune",
	// Lv has an implicit conversion from int (Lv_Init): a candidate that takes it rewrites the ARGUMENT EXPRESSION (not its type)
	// before it can fail on a later parameter — the residue case for backupArgs/restoreArgs
	"a Lv, b string", "a Lv", "a Lv, b ...string", "a Lv, b Lv", "a string, b Lv"}

var c06Generic = []string{"[T any](a T)", "[T int | string](a, b T)", "[T any](a []T)", "[T comparable](a, b T)", "[K comparable, V any](m map[K]V)", "[T any](f func(T))", "[T ~int](a T)"}

// (generic function values as arguments and variadic generic candidates are decided at C07's atom layer: both have
// recorded findings there and would otherwise be re-reported through every family that contains them)
var c06Args = []string{"", "1", `"s"`, "2.5", "i", "s", "f64", `1, "s"`, "1, 2", "i, i", "nil", "sl", "sl...", "func(int) {}", "func(x int) int { return x }", "&i", "e", "m", `1, "a", "b"`, "200", "'a'",
	"i8", "mn", "true", "1.0", "-1", "i, s", "1, 2.5", `"a", "b"`, "bs", "i8, i8", "mn, mn", "fxo.MyN(3)", "300", "1 << 40", "i, 1", "1, i", "sl, sl", "nil, nil", `s, 1, "x"`}

const c06Env = `
var (
	i   int
	s   string
	f64 float64
	sl  []int
	bs  []byte
	e   error
	m   map[string]int
	i8  int8
	mn  fxo.MyN
	t   fxo.T
	pt  *fxo.T
	it  fxo.I
)

func gf[T any](x T) {}
`

type c06Family struct {
	path  string
	src   string
	ncand int
	sigs  []string
	msigs map[bool][]string // parameter lists: [true] of the functions F__i, [false] of the methods M__i
}

// splitArgs splits a comma separated argument list at top level.
func splitArgs(s string) []string {
	if strings.TrimSpace(s) == "" {
		return nil
	}
	var out []string
	depth, start := 0, 0
	for i, c := range s {
		switch c {
		case '(', '{', '[':
			depth++
		case ')', '}', ']':
			depth--
		case ',':
			if depth == 0 {
				out = append(out, strings.TrimSpace(s[start:i]))
				start = i + 1
			}
		}
	}
	return append(out, strings.TrimSpace(s[start:]))
}

// wrapInit rewrites the arguments at the positions of Lv parameters to fxo.Lv_Init(arg); "" if sig has no Lv parameter.
func wrapInit(sig, args string) string {
	if !strings.Contains(sig, "Lv") || strings.HasPrefix(sig, "[") {
		return ""
	}
	ps := splitArgs(strings.Trim(sig, "()"))
	as := splitArgs(args)
	if strings.HasSuffix(args, "...") {
		return ""
	}
	changed := false
	for i := range as {
		pi := i
		if pi >= len(ps) {
			pi = len(ps) - 1
		}
		if pi < 0 {
			break
		}
		f := strings.Fields(ps[pi])
		if len(f) > 0 && f[len(f)-1] == "Lv" {
			as[i] = "fxo.Lv_Init(" + as[i] + ")"
			changed = true
		}
	}
	if !changed {
		return ""
	}
	return strings.Join(as, ", ")
}

func c06Fixture(r *h.Rand, path string) c06Family {
	n := 1 + r.Intn(6)
	var sb strings.Builder
	sb.WriteString("package fxo\n\nconst XGoPackage = true\n\ntype MyN int\ntype T struct{ V int }\ntype Lv struct{ N int }\nfunc Lv_Init(v int) Lv { return Lv{v} }\n")
	fam := c06Family{path: path, ncand: n, msigs: map[bool][]string{}}
	var ifaceMethods []string
	for k := 0; k < n; k++ {
		var sig string
		if r.Chance(25) {
			sig = h.Pick(r, c06Generic)
		} else {
			sig = "(" + h.Pick(r, c06Params) + ")"
		}
		fam.sigs = append(fam.sigs, sig)
		fam.msigs[true] = append(fam.msigs[true], sig)
		fmt.Fprintf(&sb, "type RF%d int\nfunc F__%d%s (r RF%d) { return }\n", k, k, sig, k)
		msig := sig
		if strings.HasPrefix(sig, "[") { // methods cannot be generic
			msig = "(" + h.Pick(r, c06Params) + ")"
		}
		fam.msigs[false] = append(fam.msigs[false], msig)
		recv := "T"
		if r.Chance(40) {
			recv = "*T"
		}
		fmt.Fprintf(&sb, "type RM%d int\nfunc (p %s) M__%d%s (r RM%d) { return }\n", k, recv, k, msig, k)
		ifaceMethods = append(ifaceMethods, fmt.Sprintf("\tM__%d%s (r RM%d)", k, msig, k))
	}
	sb.WriteString("type I interface {\n" + strings.Join(ifaceMethods, "\n") + "\n}\n")
	fam.src = sb.String()
	return fam
}

func c06N(tier string) int {
	if tier == "thorough" {
		return 2500
	}
	return 60
}

func c06Prog(path, stmt string) string {
	return "package main\n\nimport fxo \"" + path + "\"\n" + c06Env + "\nfunc probe() {\n\t" + stmt + "\n}\n"
}

func c06Run(tier string, seed uint64, i int) []h.Result {
	r := h.NewRand(seed, 6, uint64(i))
	u := sharedUniverse()
	path := fmt.Sprintf("fx/ov/s%d/c%d", seed, i)
	fam := c06Fixture(r, path)
	u.AddSource(path, fam.src)
	if _, err := u.Import(path); err != nil {
		return []h.Result{{Key: "family " + path, Verdict: h.Skip, Kind: "fixture-invalid", Detail: err.Error() + "\n" + fam.src}}
	}
	var out []h.Result
	for _, callee := range []string{"fxo.F", "t.M", "pt.M", "it.M"} { // (methods on non-addressable operands: see C08)
		base := callee[:len(callee)-1]
		name := callee[len(callee)-1:]
		for _, args := range c06Args {
			// reference: first candidate Go accepts
			want := -1
			for k := 0; k < fam.ncand; k++ {
				ck := u.Check("main", c06Prog(path, fmt.Sprintf("_ = %s%s__%d(%s)", base, name, k, args)))
				if len(ck.Errs) == 0 {
					want = k
					break
				}
				// documented extension: a parameter of a type T with T_Init accepts what T_Init accepts (implicit conversion)
				if w := wrapInit(fam.msigs[callee == "fxo.F"][k], args); w != "" {
					ck := u.Check("main", c06Prog(path, fmt.Sprintf("_ = %s%s__%d(%s)", base, name, k, w)))
					if len(ck.Errs) == 0 {
						want = k
						break
					}
				}
			}
			stmt := fmt.Sprintf("_ = %s(%s)", callee, args)
			o := drive.Build(u, []string{c06Prog(path, stmt)}, drive.Opt{NoCompare: true})
			res := h.Result{Key: fmt.Sprintf("family{%s} call %s", strings.Join(fam.sigs, " ; "), stmt), Verdict: h.Held}
			if o.Status == "fe" || o.Status == "imbalance" {
				res.Verdict, res.Kind, res.Detail = h.Skip, o.Status, o.Msg
				out = append(out, res)
				continue
			}
			res.NonTrivial = true
			res.Count("overloaded_calls", 1)
			res.Tag(fmt.Sprintf("expected:%d", want))
			got := -1
			probe := probeFunc(o.Output())
			if o.Status == "accepted" {
				for k := 0; k < fam.ncand; k++ {
					if strings.Contains(probe, fmt.Sprintf("%s__%d(", name, k)) {
						got = k
					}
				}
			}
			fail := func(kind, detail string) {
				res.Verdict, res.Kind = h.Violated, kind
				res.Detail = detail
				res.Input = fam.src + "\n// ---- caller ----\n" + c06Prog(path, stmt)
			}
			switch {
			case o.Status == "crash":
				fail("crash: "+o.CrashSig, o.Msg+"\n"+o.Stack)
			case want < 0 && o.Status == "accepted" && len(o.OutErrs) > 0:
				fail("no-candidate-applies-but-accepted", fmt.Sprintf("Go accepts none of the %d candidates; builder emitted %s (%s)", fam.ncand, probe, firstN(o.OutErrs, 1)))
			case want < 0 && o.Status == "accepted":
				res.Count("accepted_via_extension", 1)
			case want < 0:
				res.Count("rejected_no_candidate", 1)
			case o.Status != "accepted":
				fail("applicable-candidate-rejected", fmt.Sprintf("candidate %d (%s) accepts the arguments under Go's rules; builder reports: %s", want, fam.sigs[want], o.Msg))
			case got != want:
				fail(fmt.Sprintf("wrong-candidate: chose %d expected %d", got, want), fmt.Sprintf("first applicable candidate is %d (%s); emitted: %s", want, fam.sigs[want], probe))
			case len(o.OutErrs) > 0:
				fail("chosen-call-ill-typed", firstN(o.OutErrs, 2)+"\n"+probe)
			default:
				// residue: the emitted call must be what a direct call of the chosen candidate emits
				twin := drive.Build(u, []string{c06Prog(path, fmt.Sprintf("_ = %s%s__%d(%s)", base, name, want, args))}, drive.Opt{NoCompare: true})
				if twin.Status == "accepted" {
					if tp := probeFunc(twin.Output()); tp != probe {
						fail("residue", "emitted call differs from the call emitted when only the chosen candidate is named:\n  overloaded: "+probe+"\n  direct:     "+tp)
						break
					}
					if twin.Output() != o.Output() {
						fail("residue-outside-call", "files differ outside the call (import table / declarations)")
						break
					}
					res.Count("twin_compared", 1)
				}
				// recorder must name the chosen object
				okRec := false
				for _, ev := range o.RecEvents {
					if ev.Kind == "call" && ev.Obj != nil && ev.Obj.Name() == fmt.Sprintf("%s__%d", name, want) {
						okRec = true
					}
				}
				if !okRec {
					var names []string
					for _, ev := range o.RecEvents {
						if ev.Kind == "call" && ev.Obj != nil {
							names = append(names, ev.Obj.Name())
						}
					}
					fail("recorder-call", fmt.Sprintf("Recorder.Call objects %v do not include %s__%d", names, name, want))
					break
				}
				res.Count("resolved_as_expected", 1)
			}
			out = append(out, res)
		}
	}
	return out
}

func init() {
	h.Register(&h.Check{
		ID: "C06", Level: "exploration",
		Rule: "random overload families of 1-6 candidates (parameter palette: fixed, variadic, any, named numeric, func types, pointers, slices, maps, generic signatures with any/union/comparable/~ constraints) generated as Go source (functions F__i, methods M__i on value or pointer receivers, " +
			"interface methods) and imported through the shared importer; 41 argument lists (untyped constants incl. out-of-range ones, typed variables, nil, slices with ..., function literals, generic function values, multiple arguments) x 5 callee forms (package function, method on addressable value, " +
			"on pointer, on interface value, on composite literal). Model: for each candidate in index order go/types checks the plain call; the first success is the expected choice. Oracles: emitted callee = expected candidate (or rejection when none applies), output type-checks, " +
			"emitted file is byte-identical to the file emitted for a direct call of the chosen candidate (no residue of rejected candidates in arguments, types, imports), Recorder.Call names the chosen object. non-trivial = call decided; distinct by family signature + call",
		Assume: []string{"go/types applicability of each concrete candidate is the reference for 'accepts the arguments under Go's call rules'", "default configuration"},
		MinNT:  500,
		Plan:   func(tier string, seed uint64) int { return c06N(tier) },
		Run:    c06Run,
	})
}
