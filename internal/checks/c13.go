package checks

import (
	"fmt"
	"go/types"
	"regexp"
	"strings"

	"github.com/goplus/gogen/verif/internal/drive"
	"github.com/goplus/gogen/verif/internal/gen"
	"github.com/goplus/gogen/verif/internal/h"
	"github.com/goplus/gogen/verif/internal/ref"
)

// C13 — type expressions round-trip: printed types denote the identical type (DESIGN.md §2 C13).

const c13PerProg = 24

type c13Decl struct {
	name string // declared object to compare (variable, alias, function)
	text string // type expression
	decl string // declaration
}

var c13Imports = [][2]string{{"fmt", `"fmt"`}, {"io", `"io"`}, {"strings", `"strings"`}, {"time", `"time"`}, {"unsafe", `"unsafe"`}, {"autil", `autil "fx/a/util"`}, {"butil", `butil "fx/b/util"`}}

// c13Program generates one package of type declarations. In the minimal mode (odd cases) the package declares few
// types and imports exactly the packages their text mentions, with no other reference to them: the type expression
// is then the ONLY thing keeping its packages imported, so a qualification that is printed but whose import is lost
// (or mis-named) is observable. In the full mode every import is also referenced by a `var _` declaration.
func c13Program(r *h.Rand, depthMax int, minimal bool) (string, []c13Decl) {
	g := &gen.TypeGen{R: r}
	var sb strings.Builder
	n := c13PerProg
	if minimal {
		n = 1 + r.Intn(4)
	}
	var decls []c13Decl
	defer func() {}()
	for i := 0; i < n; i++ {
		d := 1 + r.Intn(depthMax)
		t := g.Type(d)
		var dc c13Decl
		switch r.Intn(7) {
		case 0:
			dc = c13Decl{fmt.Sprintf("A%d", i), t, fmt.Sprintf("type A%d = %s", i, t)}
		case 1:
			dc = c13Decl{fmt.Sprintf("f%d", i), t, fmt.Sprintf("func f%d(x %s) (r %s) { return }", i, t, t)}
		case 2:
			dc = c13Decl{fmt.Sprintf("v%d", i), t, fmt.Sprintf("var v%d struct{ F %s; G []%s }", i, t, t)}
		case 3:
			c := g.Constraint()
			dc = c13Decl{fmt.Sprintf("g%d", i), c, fmt.Sprintf("func g%d[P %s, Q any](x P, y map[string]Q) (r []P) { return }", i, c)}
		case 4:
			dc = c13Decl{fmt.Sprintf("N%d", i), t, fmt.Sprintf("type N%d %s", i, strings.TrimPrefix(t, "*"))}
			if strings.HasPrefix(dc.decl, "type N"+fmt.Sprint(i)+" interface") || true {
				// named type over any type expression is fine; compare its underlying type
			}
		default:
			dc = c13Decl{fmt.Sprintf("v%d", i), t, fmt.Sprintf("var v%d %s", i, t)}
		}
		decls = append(decls, dc)
		sb.WriteString(dc.decl + "\n")
	}
	body := sb.String()
	if !minimal {
		return "package main\n" + gen.TypeImports + gen.TypePrelude + gen.TypeUses + "\n" + body, decls
	}
	imps := ""
	for _, im := range c13Imports {
		if regexp.MustCompile(`\b` + im[0] + `\.`).MatchString(body) {
			imps += "\t" + im[1] + "\n"
		}
	}
	if imps != "" {
		imps = "import (\n" + imps + ")\n"
	}
	return "package main\n" + imps + gen.TypePrelude + "\n" + body, decls
}

func c13N(tier string) int {
	if tier == "thorough" {
		return 12000
	}
	return 640
}

func objType(p *types.Package, name string) types.Type {
	if p == nil {
		return nil
	}
	o := p.Scope().Lookup(name)
	if o == nil {
		return nil
	}
	if tn, ok := o.(*types.TypeName); ok && !tn.IsAlias() {
		return tn.Type().Underlying()
	}
	return o.Type()
}

func c13Run(tier string, seed uint64, i int) []h.Result {
	r := h.NewRand(seed, 13, uint64(i))
	depthMax := 3
	if i%4 == 0 {
		depthMax = 5
	}
	minimal := i%2 == 1
	src, decls := c13Program(r, depthMax, minimal)
	u := sharedUniverse()
	o := drive.Build(u, []string{src}, drive.Opt{NoCompare: true})
	key := fmt.Sprintf("type program seed=%d case=%d", seed, i)
	if !o.SrcValid {
		return []h.Result{{Key: key, Verdict: h.Skip, Kind: "generated-types-invalid", Detail: firstN(o.SrcErrs, 2), Input: src}}
	}
	switch o.Status {
	case "fe", "imbalance":
		return []h.Result{{Key: key, Verdict: h.Skip, Kind: o.Status, Detail: o.Msg}}
	case "crash":
		return []h.Result{{Key: key, Verdict: h.Violated, Kind: "crash: " + o.CrashSig, Detail: o.Msg + "\n" + o.Stack, Input: src, NonTrivial: true}}
	case "rejected", "write-error":
		return []h.Result{{Key: key, Verdict: h.Violated, Kind: "rejected-valid-types", Detail: o.Msg, Input: src, NonTrivial: true}}
	}
	var out []h.Result
	if o.Out == nil || o.Out.Pkg == nil || o.Out.Parse != nil {
		return []h.Result{{Key: key, Verdict: h.Violated, Kind: "output-unparsable", Detail: firstN(o.OutErrs, 2) + "\n" + o.Output(), Input: src, NonTrivial: true}}
	}
	for _, d := range decls {
		res := h.Result{Key: "type: " + d.decl, Verdict: h.Held, NonTrivial: true}
		res.Count("types_round_tripped", 1)
		if minimal {
			res.Count("types_sole_reference_to_their_imports", 1)
		}
		res.Tag(fmt.Sprintf("depth:%d", strings.Count(d.text, "[")+strings.Count(d.text, "{")+strings.Count(d.text, "(")+strings.Count(d.text, "*")))
		want, got := objType(o.Src.Pkg, d.name), objType(o.Out.Pkg, d.name)
		switch {
		case want == nil || got == nil:
			res.Verdict, res.Kind = h.Violated, "declaration-lost"
			res.Detail = fmt.Sprintf("object %s missing after round trip; output errors: %s", d.name, firstN(o.OutErrs, 2))
		case !ref.TypeEq(want, got):
			res.Verdict = h.Violated
			res.Kind = "type-changed: got " + drive.TypeStr(got)
			res.Detail = fmt.Sprintf("%s\n  original: %s\n  re-read:  %s\n  output errors: %s", d.decl, drive.TypeStr(want), drive.TypeStr(got), firstN(o.OutErrs, 2))
		}
		if res.Verdict == h.Violated {
			res.Input = o.Output()
		}
		out = append(out, res)
	}
	return out
}

func init() {
	h.Register(&h.Check{
		ID: "C13", Level: "exploration",
		Rule: "random type expressions (type algebra to depth 5 over basic types, unsafe.Pointer, named/alias/generic types of the package and of two fixture packages with EQUAL base names, std named types, pointers, slices, arrays incl. length 0 and 1<<20, maps, " +
			"channels in all 9 direction nestings, functions with named/unnamed/blank/variadic parameters and named results, structs with embedded/pointer-embedded fields and tags containing quotes/backquotes/newlines/unicode, interfaces with methods and embedded interfaces, " +
			"instantiations, constraint interfaces with unions and ~ terms) are declared through the builder in 6 positions (var, alias, func parameter+result, struct field + slice, type parameter constraint, defined type), printed, re-parsed and re-checked with the same importer objects; " +
			"the re-read type of every declared object must be identical (cross-universe identity: element types, lengths, directions, field names/embedding/tags, method sets, variadic-ness, type arguments, alias targets, union terms, package of every named component). " +
			"24 declarations per package with every import also referenced elsewhere (even cases); 1-4 declarations per package that imports exactly the packages the type texts mention and references them nowhere else (odd cases: the printed qualification must keep its import alive). non-trivial = one declaration compared; distinct by declaration text",
		Assume: []string{"go/types identity on the re-checked output", "the front end builds types.Type values from syntax; programs it cannot drive are skipped"},
		MinNT:  500,
		Plan:   func(tier string, seed uint64) int { return c13N(tier) },
		Run:    c13Run,
	})
}
