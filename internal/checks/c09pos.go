package checks

import (
	"fmt"
	"go/ast"
	"go/types"
	"sort"
	"strconv"
	"strings"

	"github.com/goplus/gogen/verif/internal/drive"
	"github.com/goplus/gogen/verif/internal/h"
)

// C09 position sweep: one-declaration programs in which a package is referenced exactly ONCE, from one syntactic position
// (a type in a variadic parameter, an array length, a case clause, a composite-literal key, a constraint term ...). The
// single reference is the only thing keeping the import alive, so a position the per-file "used" marking does not reach
// loses the import and the output no longer resolves the reference. (Added after a seeded change that stopped the
// marking walk at *ast.Ellipsis went unnoticed: every workload referenced each package from several positions.)
var c09Positions = []string{
	// --- type positions
	"var v util.T",
	"var v *util.T",
	"var v []util.T",
	"var v [2]util.T",
	"var v map[string]util.T",
	"var v map[util.N]int",
	"var v chan util.T",
	"var v <-chan util.T",
	"var v chan<- util.T",
	"var v func(util.T)",
	"var v func() util.T",
	"var v func(...util.T)",
	"var v func(int, ...*util.T) error",
	"var v struct{ F util.T }",
	"var v struct{ util.T }",
	"var v struct{ *util.T }",
	"var v struct{ F util.T `tag:\"x\"` }",
	"var v interface{ M(util.T) }",
	"var v interface{ M() util.T }",
	"var v interface{ util.I }",
	"type A = util.T",
	"type N util.T",
	"type N struct{ util.T }",
	"type N interface{ util.I; X() }",
	"type N func(...util.N)",
	"func f(x util.T) {}",
	"func f(xs ...util.T) {}",
	"func f(n int, xs ...[]util.T) {}",
	"func f() (r util.T) { return }",
	"func f() (int, util.T) { return 0, util.T{} }",
	"func f() { var x util.T; _ = x }",
	"func f() { var x, y util.N = 1, 2; _, _ = x, y }",
	"func f() { _ = new(util.T) }",
	"func f() { _ = make([]util.T, 1) }",
	"func f() { _ = make(map[util.N]bool) }",
	"func f() { _ = make(chan util.T, 2) }",
	"func f() { _ = []util.T{} }",
	"func f() { _ = map[string]util.T{} }",
	"func f() { _ = [...]util.N{1, 2} }",
	"func f() { _ = [2]util.N{} }",
	"func f(a any) { _ = a.(util.T) }",
	"func f(a any) { _ = a.(*util.T) }",
	"func f(a any) { switch a.(type) { case util.T: } }",
	"func f(a any) { switch x := a.(type) { case util.I, util.N: _ = x } }",
	"func f(a any) { switch a.(type) { case int: case []util.T: } }",
	"func f(a any) { v, ok := a.(util.T); _, _ = v, ok }",
	"func f() { _ = func(x util.T) {} }",
	"func f() { _ = func(xs ...util.T) {} }",
	"func f() { _ = func() (r util.T) { return } }",
	"func f() { type L util.T; var x L; _ = x }",
	"func f() { type L = []util.T; var x L; _ = x }",
	"type R int\nfunc (r R) m(x util.T) {}",
	"type R int\nfunc (r *R) m(xs ...util.T) {}",
	"func g[P util.I](x P) {}",
	"type G[P util.I] int",
	"type G[P interface{ ~int | util.N }] struct{ V P }",
	"type G[K comparable, P util.I] map[K]P",
	"func g[P interface{ ~string | util.N }](x P) {}",
	"func g[P any](x P, y util.T) {}",
	"var v util.G[int]",
	"var v util.P[string, int]",
	"type H[T any] struct{ V T }\nvar v H[util.T]",
	"type H[T any] struct{ V T }\nfunc f() { _ = H[util.T]{} }",
	"func f() { _ = util.N(3) }",
	"func f(i int) { _ = util.N(i) }",
	"func f() { _ = (*util.T)(nil) }",
	"func f() { _ = []util.N(nil) }",
	"func f() { _ = util.T{} }",
	"func f() { _ = &util.T{X: 1} }",
	"func f() { _ = []*util.T{{X: 1}} }",
	"func f() { _ = map[util.N]string{1: \"a\"} }",
	"func f() { _ = util.T.IA }",
	"func f() { _ = (*util.T).PA }",
	"func f() { _ = util.G[string]{} }",
	"func id[T any](x T) T { return x }\nfunc f() { _ = id[util.N] }",
	"func id[T any](x T) T { return x }\nfunc f() { _ = id[util.N](1) }",
	// --- expression positions
	"var v = util.C",
	"var v = util.V",
	"var v int = int(util.C)",
	"const k = util.C",
	"const k = util.C + 1",
	"const k = -util.C",
	"const (\n\ta = iota\n\tb = util.C\n)",
	"var arr [util.C]int",
	"var arr [util.C + 1][2]int",
	"func f() util.N { return util.C }",
	"func f() (int, util.N) { return 1, util.V }",
	"func f(xs []int) { _ = xs[util.C] }",
	"func f(xs []int) { _ = xs[util.C:] }",
	"func f(xs []int) { _ = xs[:util.C] }",
	"func f(xs []int) { _ = xs[1:2:util.C] }",
	"func f(xs []int) { xs[util.C] = 1 }",
	"func f(xs []int) { xs[util.V]++ }",
	"func f(n int) { switch n { case int(util.C): } }",
	"func f(n int) { switch n { case 1: case 2, int(util.V): } }",
	"func f() { if util.C > 0 {} }",
	"func f() { if x := util.C; x > 0 {} }",
	"func f() { if false {} else if util.V > 0 {} }",
	"func f() { for i := 0; i < int(util.V); i++ {} }",
	"func f() { for i := int(util.C); i < 9; i++ {} }",
	"func f() { for i := 0; i < 9; i += int(util.C) {} }",
	"func f() { for util.V < 3 {} }",
	"func f(ch chan int) { ch <- int(util.V) }",
	"func f() { defer util.Fn(1) }",
	"func f() { go util.Fn(1) }",
	"func f() { defer func() { util.Fn(2) }() }",
	"func f(m map[int]int) { m[int(util.V)] = 1 }",
	"func f(m map[int]int) { delete(m, int(util.V)) }",
	"func f() { _ = map[int]int{int(util.C): 1} }",
	"func f() { _ = map[int]int{1: int(util.C)} }",
	"func f() { _ = []int{util.C: 1} }",
	"func f() { _ = [...]int{util.C: 1} }",
	"func f() { _ = struct{ A int }{A: int(util.V)} }",
	"func f() { _ = struct{ A int }{int(util.V)} }",
	"func f() { x := 1; x += int(util.V); _ = x }",
	"func f() { x := 1; x <<= util.C; _ = x }",
	"func f() {\nL:\n\tfor {\n\t\t_ = util.V\n\t\tbreak L\n\t}\n}",
	"func f(ch chan int) { select { case ch <- int(util.V): default: } }",
	"func f(ch chan int) { select { case <-ch: _ = util.V } }",
	"func f(ch chan int) { select { case x := <-ch: _ = x + int(util.C) } }",
	"func f() { for range make([]int, util.C) {} }",
	"func f() { for i := range [util.C]int{} { _ = i } }",
	"func f() { for _, x := range []util.N{1} { _ = x } }",
	"func f() { _ = -util.C }",
	"func f() { _ = (util.C) }",
	"func f() { _ = &util.V }",
	"func f() { _ = *&util.V }",
	"func f() { util.V++ }",
	"func f() { util.V = 2 }",
	"func f() { util.V, _ = 1, 2 }",
	"func f() { util.V += 2 }",
	"func f() { _ = util.Fn(1).X }",
	"func f() { _ = util.Fn(util.C) }",
	"func f() { _ = func() util.N { return util.V }() }",
	"func f() { _ = []util.N{util.C}[0] }",
	"func f() { var x any = util.V; _ = x }",
	"func f() bool { return util.V == 1 && true }",
	"func f() bool { return !(util.V == 1) }",
	"func f() { util.Fn(1) }",
	"func f() { x, y := util.V, 1; _, _ = x, y }",
	"var v, w = util.V, 2",
	"func f() { var a [3]int; _ = a[util.C-6] }",
	"func f() { _ = len([util.C]int{}) }",
	"func f() { _ = cap(make([]int, 0, util.C)) }",
	"func f() { _ = append([]util.N{}, 1) }",
	"func f() { _ = append([]int{}, int(util.V)) }",
	"func f() { switch util.V { case 1: } }",
	"func f() { switch x := util.V; x { case 1: } }",
	"func f() { switch x := util.V; { case x > 1: } }",
	"func g(xs ...int) {}\nfunc f() { g([]int{int(util.V)}...) }",
	"func g(xs ...util.N) {}\nfunc f() { g(1, 2) }",
	"func f() { panic(util.V) }",
	"func f() { println(util.C) }",
	"func f() { var p *util.T; _ = p.X }",
	"func f() { var fn func() = func() { _ = util.V }; fn() }",
	"func f() (r int) { defer func() { r = int(util.V) }(); return }",
	"func f() { _ = [][]int{{int(util.C)}} }",
	"func f() { _ = map[string][]int{\"a\": {int(util.C)}} }",
	"func f() { var s []int; _ = s[int(util.V):int(util.V)+1] }",
	"func f() { _ = \"abc\"[util.C-7] }",
	"func f() { _ = complex(float64(util.V), 0) }",
	"func f() { _ = min(int(util.V), 2) }",
}

// c09PositionCases = positions x {package alone, package next to an equally named package that is referenced elsewhere}.
func c09PositionCases() int { return 2 * len(c09Positions) }

func c09PositionProgram(k int) (string, string, bool) {
	pos := c09Positions[k/2]
	twin := k%2 == 1
	var sb strings.Builder
	sb.WriteString("package main\n\nimport (\n\t\"fx/a/util\"\n")
	if twin {
		sb.WriteString("\tbutil \"fx/b/util\"\n")
	}
	sb.WriteString(")\n\n")
	if twin {
		sb.WriteString("var twin butil.T\n\n")
	}
	sb.WriteString(pos + "\n")
	name := "sole reference from: " + strings.ReplaceAll(pos, "\n", "; ")
	if twin {
		name += "  [next to fx/b/util]"
	}
	return name, sb.String(), twin
}

func sortedBoolKeys(m map[string]bool) []string {
	var ks []string
	for k := range m {
		ks = append(ks, k)
	}
	sort.Strings(ks)
	return ks
}

func c09PositionRun(k int) []h.Result {
	name, src, _ := c09PositionProgram(k)
	u := c09Universe()
	o := drive.Build(u, []string{src}, drive.Opt{})
	res := h.Result{Key: name, Verdict: h.Held, Input: src}
	if !o.SrcValid {
		res.Verdict, res.Kind, res.Detail = h.Skip, "template-invalid", firstN(o.SrcErrs, 2)
		return []h.Result{res}
	}
	switch o.Status {
	case "accepted":
	case "crash":
		res.Verdict, res.Kind, res.Detail, res.NonTrivial = h.Violated, "crash: "+o.CrashSig, o.Msg+"\n"+o.Stack, true
		return []h.Result{res}
	default: // front end cannot drive it, or the builder rejects a valid program (C02's business)
		res.Verdict, res.Kind, res.Detail = h.Skip, "not-built:"+o.Status, o.Msg
		return []h.Result{res}
	}
	res.NonTrivial = true
	res.Count("sole_reference_positions", 1)
	fail := func(kind, detail string) []h.Result {
		res.Verdict, res.Kind = h.Violated, kind
		res.Detail = detail + "\n" + o.Output()
		return []h.Result{res}
	}
	if len(o.OutErrs) > 0 {
		return fail("output-ill-typed: "+c09ErrClass(o.OutErrs[0]), firstN(o.OutErrs, 3))
	}
	// references the source makes, as go/types resolves them
	srcRefs := map[string]bool{}
	for _, f := range o.Src.Files {
		ast.Inspect(f, func(n ast.Node) bool {
			if se, ok := n.(*ast.SelectorExpr); ok {
				if id, ok := se.X.(*ast.Ident); ok {
					if pn, ok := o.Src.Info.Uses[id].(*types.PkgName); ok {
						srcRefs[pn.Imported().Path()+"."+se.Sel.Name] = true
					}
				}
			}
			return true
		})
	}
	kept := false
	for _, f := range o.Out.Files {
		imported := map[string]bool{}
		names := map[string]bool{}
		for _, im := range f.Imports {
			path, _ := strconv.Unquote(im.Path.Value)
			imported[path] = true
			n := "util"
			if im.Name != nil {
				n = im.Name.Name
			}
			if names[n] {
				return fail("import-name-duplicate", "import name "+n+" used twice")
			}
			names[n] = true
		}
		used := map[string]bool{}
		var wrong []string
		ast.Inspect(f, func(n ast.Node) bool {
			if se, ok := n.(*ast.SelectorExpr); ok {
				if id, ok := se.X.(*ast.Ident); ok {
					if pn, ok := o.Out.Info.Uses[id].(*types.PkgName); ok {
						used[pn.Imported().Path()] = true
						if r := pn.Imported().Path() + "." + se.Sel.Name; !srcRefs[r] {
							wrong = append(wrong, r)
						}
					}
				}
			}
			return true
		})
		if len(wrong) > 0 {
			sort.Strings(wrong)
			return fail("reference-resolves-differently", fmt.Sprintf("the output references %v, which the program never names (it names %v)", wrong, sortedBoolKeys(srcRefs)))
		}
		var diffs []string
		for p := range used {
			if !imported[p] {
				diffs = append(diffs, "missing import "+p)
			}
		}
		for p := range imported {
			if !used[p] {
				diffs = append(diffs, "import not referenced: "+p)
			}
		}
		if len(diffs) > 0 {
			sort.Strings(diffs)
			return fail("imports-differ: "+diffs[0], strings.Join(diffs, "; "))
		}
		if used["fx/a/util"] {
			kept = true
		}
	}
	if !kept {
		// the single reference was a constant the builder folded into a literal (array length, constant condition):
		// nothing in the output refers to the package, and it is — correctly — not imported
		res.NonTrivial = false
		res.Count("sole_reference_positions", -1)
		res.Count("sole_reference_folded_away", 1)
		res.Detail = "reference folded into a literal; no import needed and none emitted"
		return []h.Result{res}
	}
	res.Detail = fmt.Sprintf("import kept alive by its single reference; %d file(s) type-check", len(o.Out.Files))
	return []h.Result{res}
}
