// Package drive runs one source program through the front end + builder under all monitors and through the
// reference oracles, and returns everything that was observed (DESIGN.md E1+E2).
package drive

import (
	"bytes"
	"fmt"
	"go/ast"
	"go/constant"
	"go/parser"
	"go/token"
	"go/types"
	"runtime"
	"sort"
	"strings"
	"syscall"

	"github.com/goplus/gogen"
	"github.com/goplus/gogen/verif/internal/fe"
	"github.com/goplus/gogen/verif/internal/ref"
)

type Opt struct {
	XGo            bool // XGo-builtin configuration (big-number types, builtin package from internal/builtin)
	Bare           bool // nil-ish configuration: no recorder, no interpreter
	NoCompare      bool // skip dump / type comparison
	Recover        bool // statement-level error recovery in the front end
	FileNames      []string
	PkgPath        string
	AfterOp        func()
	NoSkipConstant bool
	NoRef          bool                                      // skip the reference side entirely (resource measurements)
	NoWrite        bool                                      // with NoRef: do not print either (go/printer is quadratic in nesting depth by itself)
	LoadNamed      func(at *gogen.Package, typ *types.Named) // Config.LoadNamed: named types whose body is supplied on demand
}

type Diff struct {
	Expr    string
	Builder string
	Go      string
}

type RecEvent struct {
	Kind string   // member / call
	Node ast.Node // rendered on demand (NodeStr): rendering eagerly would make long selector chains quadratic in the monitor
	Obj  types.Object
}

func (e RecEvent) NodeStr() string { return nodeStr(e.Node) }

type Outcome struct {
	SrcParseErr string
	SrcErrs     []string
	SrcValid    bool
	Status      string // accepted | rejected | crash | fe | imbalance
	Msg         string
	CrashSig    string
	Stack       string
	Handled     []string
	Reported    []string // errors recovered at statement level (Recover mode)
	Files       map[string]string
	FileOrder   []string
	OutErrs     []string
	DumpDiffs   []string
	OrderDiff   string
	NCmpType    int
	NCmpCVal    int
	NCmpDecl    int
	NExprPairs  int
	TypeDiffs   []Diff
	CValDiffs   []Diff
	DeclDiffs   []Diff
	EmitDiffs   []Diff // programs that are not valid Go source but are accepted and lowered to valid Go: reported type vs go/types' type of the syntax the builder holds
	NCmpEmit    int
	RecDiffs    []Diff // objects handed to Config.Recorder vs the object go/types selects for the same source node
	NCmpRec     int
	FoldedBad   []Diff // builder carries a constant where go/types (on the source) has none / rejects the expression
	Ops         int
	OpKinds     map[string]int
	Events      []fe.OpEvent
	RecEvents   []RecEvent
	PkgUses     []fe.PkgUse
	Src         *ref.Checked
	Out         *ref.Checked
	Pkg         *gogen.Package
	MaxDepth    int
	BuildAlloc  uint64  // bytes allocated while the builder operations ran (NoRef mode)
	BuildCPU    float64 // process CPU seconds spent in the builder operations (NoRef mode)
}

type recorder struct{ o *Outcome }

func (r recorder) Member(id ast.Node, obj types.Object) {
	r.o.RecEvents = append(r.o.RecEvents, RecEvent{"member", id, obj})
}
func (r recorder) Call(fn ast.Node, obj types.Object) {
	r.o.RecEvents = append(r.o.RecEvents, RecEvent{"call", fn, obj})
}

func nodeStr(n ast.Node) string {
	if e, ok := n.(ast.Expr); ok {
		return types.ExprString(e)
	}
	return fmt.Sprintf("%T", n)
}

type interp struct{ fset *token.FileSet }

func (i interp) LoadExpr(n ast.Node) string { return nodeStr(n) }

func newXGoBuiltin(pkg *gogen.Package, conf *gogen.Config) *types.Package {
	fmtp := pkg.Import("fmt")
	b := pkg.Import("github.com/goplus/gogen/internal/builtin")
	builtin := types.NewPackage("", "")
	if builtin.Scope().Insert(gogen.NewOverloadFunc(token.NoPos, builtin, "println", fmtp.Ref("Println"))) != nil {
		panic("println exists")
	}
	conf.UntypedBigInt = b.Ref("XGo_untyped_bigint").Type().(*types.Named)
	conf.UntypedBigRat = b.Ref("XGo_untyped_bigrat").Type().(*types.Named)
	conf.UntypedBigFloat = b.Ref("XGo_untyped_bigfloat").Type().(*types.Named)
	gogen.InitBuiltin(pkg, builtin, conf)
	return builtin
}

// NewPackage creates a gogen package configured per opt, wired to the outcome's monitors.
func NewPackage(u *ref.Universe, name string, opt Opt, o *Outcome) *gogen.Package {
	conf := &gogen.Config{Fset: u.Fset, Importer: u, HandleErr: func(e error) { o.Handled = append(o.Handled, e.Error()) }, NoSkipConstant: opt.NoSkipConstant}
	if !opt.Bare {
		conf.Recorder = recorder{o}
		conf.NodeInterpreter = interp{u.Fset}
	}
	if opt.XGo {
		conf.NewBuiltin = newXGoBuiltin
	}
	if opt.LoadNamed != nil {
		conf.LoadNamed = opt.LoadNamed
	}
	path := opt.PkgPath
	if path == "" {
		path = name // same path on both sides: named types of the package under construction compare by path+name
	}
	return gogen.NewPackage(path, name, conf)
}

// TopFrames extracts the first gogen function names of a stack trace (function names, not lines).
func TopFrames(stack string, n int) string {
	var out []string
	for _, l := range strings.Split(stack, "\n") {
		if strings.HasPrefix(l, "github.com/goplus/gogen") && !strings.HasPrefix(l, "github.com/goplus/gogen/verif") {
			fn := l
			if i := strings.LastIndexByte(fn, '('); i > 0 {
				fn = fn[:i]
			}
			fn = strings.TrimPrefix(fn, "github.com/goplus/gogen")
			out = append(out, fn)
			if len(out) == n {
				break
			}
		}
	}
	return strings.Join(out, " < ")
}

func runtimeErrClass(e runtime.Error) string {
	s := e.Error()
	switch {
	case strings.Contains(s, "nil pointer"):
		return "nil-deref"
	case strings.Contains(s, "index out of range"):
		return "index-out-of-range"
	case strings.Contains(s, "slice bounds"):
		return "slice-bounds"
	case strings.Contains(s, "interface conversion"):
		return "type-assertion"
	case strings.Contains(s, "divide by zero"):
		return "divide-by-zero"
	case strings.Contains(s, "makeslice"):
		return "makeslice"
	case strings.Contains(s, "nil map"):
		return "nil-map"
	}
	if len(s) > 60 {
		s = s[:60]
	}
	return s
}

// Classify turns a recovered panic value into (status, message, crash signature).
func Classify(e any, stack string) (status, msg, sig string) {
	switch e := e.(type) {
	case *fe.Unsupported, *fe.FEError:
		return "fe", fmt.Sprint(e), ""
	case *fe.Imbalance:
		return "imbalance", e.Msg, ""
	case runtime.Error:
		return "crash", e.Error(), runtimeErrClass(e) + " @ " + TopFrames(stack, 1)
	default:
		return "rejected", fmt.Sprint(e), ""
	}
}

// Build runs the program given as source files.
func Build(u *ref.Universe, srcs []string, opt Opt) *Outcome {
	o := &Outcome{OpKinds: map[string]int{}}
	// reference side
	src := &ref.Checked{Info: ref.NewInfo()}
	var files []fe.File
	for i, s := range srcs {
		f, err := parser.ParseFile(u.Fset, fmt.Sprintf("src%d.go", i), s, parser.SkipObjectResolution)
		if err != nil {
			o.SrcParseErr = err.Error()
			o.Status = "fe"
			o.Msg = "source does not parse: " + err.Error()
			return o
		}
		src.Files = append(src.Files, f)
		name := ""
		if i < len(opt.FileNames) {
			name = opt.FileNames[i]
		} else if len(srcs) > 1 {
			name = fmt.Sprintf("f%d.go", i)
		}
		files = append(files, fe.File{Name: name, AST: f})
	}
	pkgName := src.Files[0].Name.Name
	pkgPath := opt.PkgPath
	if pkgPath == "" {
		pkgPath = pkgName
	}
	if !opt.NoRef {
		u.CheckFiles(pkgPath, src)
	}
	o.Src = src
	o.SrcErrs = src.Errs
	o.SrcValid = len(src.Errs) == 0

	// builder side
	pkg := NewPackage(u, pkgName, opt, o)
	o.Pkg = pkg
	c := &fe.Compiler{Pkg: pkg, OpKinds: o.OpKinds, Recover: opt.Recover, AfterOp: opt.AfterOp}
	if !opt.NoCompare {
		c.Recs = map[ast.Expr]fe.Rec{}
	}
	c.Mon = func(ev fe.OpEvent) {
		if ev.After > o.MaxDepth {
			o.MaxDepth = ev.After
		}
	}
	var m0, m1 runtime.MemStats
	var t0 float64
	if opt.NoRef {
		runtime.ReadMemStats(&m0)
		t0 = cpuSeconds()
	}
	func() {
		defer func() {
			if e := recover(); e != nil {
				buf := make([]byte, 1<<14)
				n := runtime.Stack(buf, false)
				o.Stack = string(buf[:n])
				o.Status, o.Msg, o.CrashSig = Classify(e, o.Stack)
			}
		}()
		c.CompileFiles(files)
		o.Status = "accepted"
	}()
	if opt.NoRef {
		o.BuildCPU = cpuSeconds() - t0
		runtime.ReadMemStats(&m1)
		o.BuildAlloc = m1.TotalAlloc - m0.TotalAlloc
	}
	o.Ops = c.Ops
	o.PkgUses = c.PkgUses
	o.Reported = c.Reported
	if o.Status != "accepted" {
		return o
	}
	if len(o.Handled) > 0 || len(o.Reported) > 0 {
		o.Status = "rejected"
		if len(o.Handled) > 0 {
			o.Msg = o.Handled[0]
		} else {
			o.Msg = o.Reported[0]
		}
		return o
	}
	if c.Recs != nil {
		o.foldedBad(c)
	}
	// output
	if opt.NoRef && opt.NoWrite {
		return o
	}
	if opt.NoRef {
		o.Files = map[string]string{}
		pkg.ForEachFile(func(fname string, _ *gogen.File) { o.FileOrder = append(o.FileOrder, fname) })
		for _, fn := range o.FileOrder {
			var b bytes.Buffer
			if err := pkg.WriteTo(&b, fn); err != nil {
				o.Status, o.Msg = "write-error", err.Error()
				return o
			}
			o.Files[fn] = b.String()
		}
		return o
	}
	if !o.Write(u, pkg, pkgPath) {
		return o
	}
	if !opt.NoCompare && !o.SrcValid && len(o.OutErrs) == 0 && o.Out != nil && o.Out.Pkg != nil {
		o.compareEmitted(u, c)
		o.compareDecls(c) // declared objects of a lowered extension program: same oracle as for valid Go sources
	}
	if opt.NoCompare || !o.SrcValid || len(o.OutErrs) > 0 {
		return o
	}
	o.compare(u, c)
	return o
}

func cpuSeconds() float64 {
	var ru syscall.Rusage
	syscall.Getrusage(syscall.RUSAGE_SELF, &ru)
	return float64(ru.Utime.Nano()+ru.Stime.Nano()) / 1e9
}

// Write prints every file of pkg, re-parses and re-checks the result. Returns false if writing crashed.
func (o *Outcome) Write(u *ref.Universe, pkg *gogen.Package, pkgPath string) (ok bool) {
	defer func() {
		if e := recover(); e != nil {
			buf := make([]byte, 1<<14)
			n := runtime.Stack(buf, false)
			o.Stack = string(buf[:n])
			o.Status, o.Msg, o.CrashSig = Classify(e, o.Stack)
			if o.Status == "rejected" {
				o.Status = "write-error"
			}
			ok = false
		}
	}()
	o.Files = map[string]string{}
	pkg.ForEachFile(func(fname string, _ *gogen.File) { o.FileOrder = append(o.FileOrder, fname) })
	sort.Strings(o.FileOrder)
	out := &ref.Checked{Info: ref.NewInfo()}
	for _, fn := range o.FileOrder {
		var b bytes.Buffer
		if err := pkg.WriteTo(&b, fn); err != nil {
			o.Status, o.Msg = "write-error", err.Error()
			return false
		}
		o.Files[fn] = b.String()
		f, err := parser.ParseFile(u.Fset, "out_"+fn, b.Bytes(), parser.SkipObjectResolution)
		if err != nil {
			o.OutErrs = append(o.OutErrs, "parse: "+err.Error())
			continue
		}
		out.Files = append(out.Files, f)
	}
	if len(o.OutErrs) == 0 {
		u.CheckFiles(pkgPath, out)
		o.OutErrs = out.Errs
	}
	o.Out = out
	return true
}

func (o *Outcome) Output() string {
	var sb strings.Builder
	for _, fn := range o.FileOrder {
		if len(o.FileOrder) > 1 {
			sb.WriteString("// ---- file " + fn + "\n")
		}
		sb.WriteString(o.Files[fn])
	}
	return sb.String()
}

func cvalStr(v constant.Value) string {
	if v == nil {
		return "<none>"
	}
	return v.Kind().String() + ":" + v.ExactString()
}

func kindClass(v constant.Value) string {
	switch v.Kind() {
	case constant.Int, constant.Float:
		return "num"
	}
	return v.Kind().String()
}

// SameConst compares constant values exactly (numerically for Int/Float/Complex mixtures).
func SameConst(a, b constant.Value) bool {
	if a == nil || b == nil {
		return a == nil && b == nil
	}
	ak, bk := a.Kind(), b.Kind()
	num := func(k constant.Kind) bool { return k == constant.Int || k == constant.Float || k == constant.Complex }
	if num(ak) && num(bk) {
		if ak == constant.Complex || bk == constant.Complex {
			return constant.Compare(constant.Real(constant.ToComplex(a)), token.EQL, constant.Real(constant.ToComplex(b))) &&
				constant.Compare(constant.Imag(constant.ToComplex(a)), token.EQL, constant.Imag(constant.ToComplex(b)))
		}
		return constant.Compare(a, token.EQL, b)
	}
	if ak != bk || ak == constant.Unknown {
		return false
	}
	return constant.Compare(a, token.EQL, b)
}

func TypeStr(t types.Type) string {
	if t == nil {
		return "<novalue>"
	}
	return types.TypeString(t, func(p *types.Package) string {
		if p.Path() == "" || p.Path() == p.Name() {
			return ""
		}
		return p.Path()
	})
}

// foldedBad lists source expressions for which the builder carries a compile-time value although go/types does not
// (not a constant expression, or a constant expression Go rejects).
func (o *Outcome) foldedBad(c *fe.Compiler) {
	var list []Diff
	for e, rec := range c.Recs {
		if rec.CVal == nil || rec.Ref {
			continue
		}
		switch e.(type) {
		case *ast.BasicLit, *ast.Ident, *ast.SelectorExpr:
			continue
		}
		tv, ok := o.Src.Info.Types[e]
		if ok && tv.Value != nil {
			continue
		}
		g := "not a constant expression"
		if !ok || tv.Type == nil || tv.Type == types.Typ[types.Invalid] {
			g = "rejected by go/types"
		}
		list = append(list, Diff{types.ExprString(e), cvalStr(rec.CVal), g})
	}
	sort.Slice(list, func(i, j int) bool { return list[i].Expr < list[j].Expr })
	o.FoldedBad = list
}

func (o *Outcome) compare(u *ref.Universe, c *fe.Compiler) {
	d1 := &ref.Dumper{Info: o.Src.Info, Pkg: o.Src.Pkg}
	d2 := &ref.Dumper{Info: o.Out.Info, Pkg: o.Out.Pkg}
	var a, b []ref.Decl
	for _, f := range o.Src.Files {
		a = append(a, d1.File(f)...)
	}
	for _, f := range o.Out.Files {
		b = append(b, d2.File(f)...)
	}
	diffs, pairs := ref.Compare(a, b)
	o.DumpDiffs = diffs
	if x, y := strings.Join(ref.InitOrder(a), ","), strings.Join(ref.InitOrder(b), ","); x != y && len(o.Src.Files) == 1 {
		o.OrderDiff = "initialisation order of package-level declarations differs: source [" + x + "] output [" + y + "]"
	}
	o.compareRecorder()
	defer o.compareDecls(c) // after the expression pairs: the first recorded difference of an input stays the same
	if c.Recs == nil {
		return
	}
	for _, p := range pairs {
		s, t := p[0], p[1]
		if len(s.Exprs) != len(t.Exprs) {
			continue
		}
		for i, se := range s.Exprs {
			rec, ok := c.Recs[se]
			if !ok {
				continue
			}
			o.NExprPairs++
			oe := t.Exprs[i]
			tv, err := types.Eval(u.Fset, o.Out.Pkg, oe.Pos(), types.ExprString(oe))
			if err != nil {
				continue // context-dependent expression (e.g. untyped nil, elided literal types)
			}
			if tv.IsBuiltin() || tv.Type == nil || tv.Type == types.Typ[types.Invalid] {
				continue
			}
			if tv.IsType() {
				continue
			}
			es := types.ExprString(oe)
			bt := rec.Type
			if rec.CommaOk {
				if tup, ok := bt.(*types.Tuple); ok && tup.Len() == 2 {
					if b, ok := tup.At(1).Type().Underlying().(*types.Basic); !ok || b.Info()&types.IsBoolean == 0 {
						o.TypeDiffs = append(o.TypeDiffs, Diff{es + " (comma-ok)", TypeStr(rec.Type), "second value must be boolean"})
					}
					bt = tup.At(0).Type()
				}
			}
			if rt, ok := gogen.DerefType(bt); ok {
				bt = rt
			}
			o.NCmpType++
			if !ref.TypeEq(bt, tv.Type) {
				o.TypeDiffs = append(o.TypeDiffs, Diff{es, TypeStr(rec.Type), TypeStr(tv.Type)})
			}
			if rec.Ref {
				continue
			}
			o.NCmpCVal++
			if !SameConst(rec.CVal, tv.Value) {
				o.CValDiffs = append(o.CValDiffs, Diff{es, cvalStr(rec.CVal), cvalStr(tv.Value)})
			}
		}
	}
}

// compareRecorder: every object handed to Recorder.Member for a source selector expression must be the member go/types
// selects for that very node in the source program: same name, same kind (field / method), same declaring package, and
// an identical type. (The recorder is what IDE-like clients use to resolve identifiers; a wrong object here is a wrong
// "go to definition" even when the emitted code is right.)
func (o *Outcome) compareRecorder() {
	if o.Src == nil || o.Src.Info == nil {
		return
	}
	for _, ev := range o.RecEvents {
		if ev.Kind != "member" || ev.Obj == nil {
			continue
		}
		se, ok := ev.Node.(*ast.SelectorExpr)
		if !ok {
			continue
		}
		sel, ok := o.Src.Info.Selections[se]
		if !ok {
			continue // qualified identifier or a node go/types has no selection for
		}
		want := sel.Obj()
		o.NCmpRec++
		what := "recorder object for " + types.ExprString(se)
		_, gotFunc := ev.Obj.(*types.Func)
		_, wantFunc := want.(*types.Func)
		pkgOf := func(ob types.Object) string {
			if ob.Pkg() == nil {
				return ""
			}
			return ob.Pkg().Path()
		}
		switch {
		case ev.Obj.Name() != want.Name() || gotFunc != wantFunc || pkgOf(ev.Obj) != pkgOf(want):
			o.RecDiffs = append(o.RecDiffs, Diff{what, objStr(ev.Obj), objStr(want)})
		case !ref.TypeEq(stripRecv(ev.Obj.Type()), stripRecv(want.Type())):
			o.RecDiffs = append(o.RecDiffs, Diff{what + " (type)", TypeStr(ev.Obj.Type()), TypeStr(want.Type())})
		}
	}
}

func objStr(ob types.Object) string {
	kind := "var"
	switch ob.(type) {
	case *types.Func:
		kind = "func"
	case *types.TypeName:
		kind = "type"
	case *types.Const:
		kind = "const"
	}
	p := ""
	if ob.Pkg() != nil {
		p = ob.Pkg().Path() + "."
	}
	return kind + " " + p + ob.Name() + " " + TypeStr(ob.Type())
}

func stripRecv(t types.Type) types.Type {
	if sig, ok := t.(*types.Signature); ok && sig.Recv() != nil {
		return types.NewSignatureType(nil, nil, nil, sig.Params(), sig.Results(), sig.Variadic())
	}
	return t
}

// compareDecls: the type (and, for constants, the value) the builder's scope exposes for every declared object —
// package-level variables, constants and functions, parameters, results and locals — against the object go/types
// defines in the emitted package. A name declared more than once in one function (shadowing) is not compared.
func (o *Outcome) compareDecls(c *fe.Compiler) {
	if len(c.Decls) == 0 || o.Out == nil || o.Out.Pkg == nil {
		return
	}
	type span struct{ pos, end token.Pos }
	funcs := map[string]span{}
	for _, f := range o.Out.Files {
		for _, d := range f.Decls {
			if fd, ok := d.(*ast.FuncDecl); ok {
				k := fd.Name.Name
				if fd.Recv != nil && len(fd.Recv.List) == 1 {
					k = "(" + types.ExprString(fd.Recv.List[0].Type) + ")." + k
				}
				funcs[k] = span{fd.Pos(), fd.End()}
			}
		}
	}
	keys := make([]string, 0, len(c.Decls))
	for k := range c.Decls {
		keys = append(keys, k)
	}
	sort.Strings(keys)
	for _, k := range keys {
		i := strings.LastIndexByte(k, '/')
		if i < 0 || strings.Contains(k, "#case") || strings.Contains(k[:i], ".func@") {
			continue
		}
		fn, name := k[:i], k[i+1:]
		bt := c.Decls[k]
		if bt == nil {
			continue
		}
		var obj types.Object
		if fn == "" {
			obj = o.Out.Pkg.Scope().Lookup(name)
		} else {
			sp, ok := funcs[fn]
			if !ok {
				continue
			}
			n := 0
			for id, ob := range o.Out.Info.Defs {
				if ob != nil && id.Name == name && id.Pos() >= sp.pos && id.Pos() < sp.end {
					obj = ob
					n++
				}
			}
			if n != 1 {
				continue
			}
		}
		if obj == nil {
			continue
		}
		if _, isType := obj.(*types.TypeName); isType {
			continue
		}
		what := "declared " + name
		if fn != "" {
			what += " in " + fn
		}
		o.NCmpDecl++
		if !ref.TypeEq(bt, obj.Type()) {
			o.TypeDiffs = append(o.TypeDiffs, Diff{what, TypeStr(bt), TypeStr(obj.Type())})
		}
		if gk, ok := obj.(*types.Const); ok {
			if bv, ok := c.DeclVals[k]; ok {
				o.NCmpCVal++
				if !SameConst(bv, gk.Val()) {
					o.CValDiffs = append(o.CValDiffs, Diff{what, cvalStr(bv), cvalStr(gk.Val())})
				}
			}
		}
	}
	o.NCmpType += o.NCmpDecl
}

// compareEmitted is the type oracle for programs that have no valid Go source (language extensions the builder lowers):
// the syntax the builder holds for each recorded operand is printed and typed context-free by go/types in the emitted
// package, at the end of the emitted function it belongs to; the builder's reported type must be identical.
func (o *Outcome) compareEmitted(u *ref.Universe, c *fe.Compiler) {
	if c.Recs == nil {
		return
	}
	ends := map[string]token.Pos{}
	for _, f := range o.Out.Files {
		for _, d := range f.Decls {
			if fd, ok := d.(*ast.FuncDecl); ok && fd.Body != nil {
				k := fd.Name.Name
				if fd.Recv != nil && len(fd.Recv.List) == 1 {
					k = "(" + types.ExprString(fd.Recv.List[0].Type) + ")." + k
				}
				ends[k] = fd.Body.Rbrace
			}
		}
	}
	type item struct {
		e   ast.Expr
		rec fe.Rec
	}
	var items []item
	for e, rec := range c.Recs {
		if rec.Ref || rec.Val == nil || rec.Type == nil {
			continue
		}
		items = append(items, item{e, rec})
	}
	sort.Slice(items, func(i, j int) bool {
		if items[i].e.Pos() != items[j].e.Pos() {
			return items[i].e.Pos() < items[j].e.Pos()
		}
		return items[i].e.End() < items[j].e.End()
	})
	for _, it := range items {
		ve, ok := it.rec.Val.(ast.Expr)
		if !ok {
			continue
		}
		pos := token.NoPos
		if it.rec.Fn != "" {
			k := it.rec.Fn
			if i := strings.Index(k, ".func@"); i >= 0 {
				k = k[:i]
			}
			p, ok := ends[k]
			if !ok {
				continue
			}
			pos = p
		}
		es := types.ExprString(ve)
		tv, err := types.Eval(u.Fset, o.Out.Pkg, pos, es)
		if err != nil || tv.IsBuiltin() || tv.IsType() || tv.Type == nil || tv.Type == types.Typ[types.Invalid] {
			continue
		}
		bt := it.rec.Type
		if _, isTT := bt.(*gogen.TypeType); isTT {
			continue
		}
		if sig, ok := bt.(*types.Signature); ok {
			if _, ext := gogen.CheckSigFuncEx(sig); ext { // an overloaded / template callee before the call resolves it: no Go counterpart
				continue
			}
		}
		if it.rec.CommaOk {
			if tup, ok := bt.(*types.Tuple); ok && tup.Len() == 2 {
				bt = tup.At(0).Type()
			}
		}
		if rt, ok := gogen.DerefType(bt); ok {
			bt = rt
		}
		o.NCmpEmit++
		if !ref.TypeEq(bt, tv.Type) {
			o.EmitDiffs = append(o.EmitDiffs, Diff{es, TypeStr(it.rec.Type), TypeStr(tv.Type)})
		}
	}
}

// Summary renders the outcome for replay output.
func (o *Outcome) Summary() string {
	var sb strings.Builder
	fmt.Fprintf(&sb, "reference (go/types on source): valid=%v %v\n", o.SrcValid, o.SrcErrs)
	fmt.Fprintf(&sb, "builder: status=%s msg=%q ops=%d handled=%v\n", o.Status, o.Msg, o.Ops, o.Handled)
	if o.CrashSig != "" {
		fmt.Fprintf(&sb, "crash: %s\n%s\n", o.CrashSig, o.Stack)
	}
	if o.Files != nil {
		fmt.Fprintf(&sb, "output:\n%s\noutput errors: %v\n", o.Output(), o.OutErrs)
	}
	for _, d := range o.DumpDiffs {
		fmt.Fprintf(&sb, "dump diff: %s\n", d)
	}
	for _, d := range o.TypeDiffs {
		fmt.Fprintf(&sb, "type diff: %s builder=%s go=%s\n", d.Expr, d.Builder, d.Go)
	}
	for _, d := range o.EmitDiffs {
		fmt.Fprintf(&sb, "emitted-syntax type diff: %s builder=%s go=%s\n", d.Expr, d.Builder, d.Go)
	}
	for _, d := range o.RecDiffs {
		fmt.Fprintf(&sb, "recorder diff: %s builder=%s go=%s\n", d.Expr, d.Builder, d.Go)
	}
	for _, d := range o.CValDiffs {
		fmt.Fprintf(&sb, "const diff: %s builder=%s go=%s\n", d.Expr, d.Builder, d.Go)
	}
	return sb.String()
}
