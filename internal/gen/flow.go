package gen

import (
	"fmt"
	"strconv"
	"strings"
)

// Control-flow body generator for C10 (missing return / label diagnostics).

type Chooser interface{ Intn(n int) int }

// EnumChooser drives the generator from the digits of an index: enumerating indices enumerates choice sequences;
// when the digits are used up every choice is 0 (the simplest alternative).
type EnumChooser struct {
	digits []int
	pos    int
}

func NewEnumChooser(idx uint64) *EnumChooser {
	e := &EnumChooser{}
	for idx > 0 {
		e.digits = append(e.digits, int(idx%16))
		idx /= 16
	}
	return e
}

func (e *EnumChooser) Intn(n int) int {
	if n <= 0 || e.pos >= len(e.digits) {
		e.pos++
		return 0
	}
	d := e.digits[e.pos]
	e.pos++
	return d % n
}

type flowCtx struct {
	r        Chooser
	depth    int
	maxDepth int
	inLoop   int
	inBreak  int
	loopLbls []string
	brkLbls  []string
	gotoLbls []string
	nlabel   *int
	sb       *strings.Builder
	ind      string
	dupLabel bool
}

func (c *flowCtx) w(format string, a ...any) { fmt.Fprintf(c.sb, c.ind+format+"\n", a...) }

func (c *flowCtx) block(n int) {
	old := c.ind
	c.ind += "\t"
	saved := len(c.gotoLbls)
	k := c.r.Intn(n + 1)
	for i := 0; i < k; i++ {
		c.stmt()
	}
	c.gotoLbls = c.gotoLbls[:saved]
	c.ind = old
}

func (c *flowCtx) newLabel() string {
	if c.dupLabel && *c.nlabel > 0 && c.r.Intn(6) == 0 {
		return "L" + strconv.Itoa(1+c.r.Intn(*c.nlabel)) // deliberately reuse a label name
	}
	*c.nlabel++
	return "L" + strconv.Itoa(*c.nlabel)
}

func (c *flowCtx) stmt() {
	r := c.r
	if c.depth > c.maxDepth {
		c.simple()
		return
	}
	c.depth++
	defer func() { c.depth-- }()
	switch r.Intn(18) {
	case 0, 1:
		c.simple()
	case 2:
		c.w("if c {")
		c.block(3)
		c.w("}")
	case 3:
		c.w("if c {")
		c.block(3)
		for k := 0; k < 2 && r.Intn(3) == 1; k++ {
			c.w("} else if x > 1 {")
			c.block(2)
		}
		c.w("} else {")
		c.block(3)
		c.w("}")
	case 4, 5:
		lbl := ""
		if r.Intn(3) == 0 {
			lbl = c.newLabel()
			c.w("%s:", lbl)
			c.loopLbls = append(c.loopLbls, lbl)
			c.brkLbls = append(c.brkLbls, lbl)
		}
		switch r.Intn(5) {
		case 0:
			c.w("for {")
		case 1:
			c.w("for c {")
		case 2:
			c.w("for range 3 {")
		case 3:
			c.w("for i := 0; ; i++ {")
		default:
			c.w("for _, e := range []int{1} { _ = e")
		}
		c.inLoop++
		c.inBreak++
		c.block(3)
		c.inLoop--
		c.inBreak--
		c.w("}")
		if lbl != "" {
			c.loopLbls = c.loopLbls[:len(c.loopLbls)-1]
			c.brkLbls = c.brkLbls[:len(c.brkLbls)-1]
		}
	case 6, 7:
		lbl := ""
		if r.Intn(3) == 0 {
			lbl = c.newLabel()
			c.w("%s:", lbl)
			c.brkLbls = append(c.brkLbls, lbl)
		}
		if r.Intn(2) == 0 {
			c.w("switch {")
		} else {
			c.w("switch x {")
		}
		tagless := strings.HasSuffix(strings.TrimSpace(lastLineOf(c.sb)), "switch {")
		c.inBreak++
		ncase := 1 + r.Intn(3)
		hasDefault := r.Intn(2) == 0
		defaultFirst := hasDefault && r.Intn(4) == 0
		if defaultFirst {
			c.w("default:")
			c.block(2)
			if r.Intn(4) == 0 {
				c.w("\tfallthrough")
			}
		}
		for i := 0; i < ncase; i++ {
			if tagless {
				c.w("case c:")
			} else {
				c.w("case %d:", i+1)
			}
			c.block(2)
			if i < ncase-1 || (hasDefault && !defaultFirst) {
				if r.Intn(4) == 0 {
					c.w("\tfallthrough")
				}
			}
		}
		if hasDefault && !defaultFirst {
			c.w("default:")
			c.block(2)
		}
		c.inBreak--
		c.w("}")
		if lbl != "" {
			c.brkLbls = c.brkLbls[:len(c.brkLbls)-1]
		}
	case 8:
		lbl := ""
		if r.Intn(4) == 0 {
			lbl = c.newLabel()
			c.w("%s:", lbl)
			c.brkLbls = append(c.brkLbls, lbl)
		}
		if r.Intn(2) == 0 {
			c.w("switch v.(type) {")
		} else {
			c.w("switch t := v.(type) {")
			defer func() {}()
		}
		bind := strings.Contains(lastLineOf(c.sb), "t :=")
		c.inBreak++
		c.w("case int:")
		if bind {
			c.w("\t_ = t")
		}
		c.block(2)
		if r.Intn(2) == 0 {
			c.w("case string, bool:")
			if bind {
				c.w("\t_ = t")
			}
			c.block(2)
		}
		if r.Intn(2) == 0 {
			c.w("default:")
			if bind {
				c.w("\t_ = t")
			}
			c.block(2)
		} else if bind {
			c.w("case nil:")
			c.w("\t_ = t")
		}
		c.inBreak--
		c.w("}")
		if lbl != "" {
			c.brkLbls = c.brkLbls[:len(c.brkLbls)-1]
		}
	case 9:
		lbl := ""
		if r.Intn(4) == 0 {
			lbl = c.newLabel()
			c.w("%s:", lbl)
			c.brkLbls = append(c.brkLbls, lbl)
		}
		c.w("select {")
		c.inBreak++
		if r.Intn(4) != 0 {
			c.w("case <-ch:")
			c.block(2)
		}
		if r.Intn(3) == 0 {
			c.w("case ch <- 1:")
			c.block(2)
		}
		if r.Intn(2) == 0 {
			c.w("default:")
			c.block(2)
		}
		c.inBreak--
		c.w("}")
		if lbl != "" {
			c.brkLbls = c.brkLbls[:len(c.brkLbls)-1]
		}
	case 10:
		c.w("{")
		c.block(3)
		c.w("}")
	case 11:
		lbl := c.newLabel()
		c.w("%s:", lbl)
		c.gotoLbls = append(c.gotoLbls, lbl)
		c.simple()
	case 12:
		c.w("%s:", c.newLabel())
		c.simple()
	case 13:
		// closure: its own label namespace and its own result list
		sub := &flowCtx{r: c.r, sb: c.sb, nlabel: c.nlabel, ind: c.ind, maxDepth: c.maxDepth, depth: c.depth, dupLabel: c.dupLabel}
		if r.Intn(2) == 0 {
			c.w("_ = func() int {")
			sub.block(3)
			c.w("}")
		} else {
			c.w("func() {")
			sub.ind = c.ind
			subNo := *sub
			subNo.sb = c.sb
			old := c.sb.Len()
			_ = old
			c.w("\tx++")
			c.w("}()")
		}
	case 14:
		lbl := c.newLabel()
		c.w("%s:", lbl)
		c.w("{")
		c.block(2)
		c.w("}")
	default:
		c.simple()
	}
}

func lastLineOf(sb *strings.Builder) string {
	s := strings.TrimRight(sb.String(), "\n")
	return s[strings.LastIndexByte(s, '\n')+1:]
}

func (c *flowCtx) simple() {
	r := c.r
	for tries := 0; tries < 20; tries++ {
		switch r.Intn(10) {
		case 0:
			c.w("return 1")
		case 1:
			c.w("x++")
		case 2:
			if c.inBreak > 0 {
				c.w("break")
				return
			}
			continue
		case 3:
			if c.inLoop > 0 {
				c.w("continue")
				return
			}
			continue
		case 4:
			if len(c.brkLbls) > 0 {
				c.w("break %s", c.brkLbls[r.Intn(len(c.brkLbls))])
				return
			}
			continue
		case 5:
			if len(c.loopLbls) > 0 {
				c.w("continue %s", c.loopLbls[r.Intn(len(c.loopLbls))])
				return
			}
			continue
		case 6:
			if len(c.gotoLbls) > 0 {
				c.w("goto %s", c.gotoLbls[r.Intn(len(c.gotoLbls))])
				return
			}
			continue
		case 7:
			c.w(`panic("x")`)
		case 8:
			c.w(";")
		case 9:
			c.w("x += 2")
		}
		return
	}
	c.w("x++")
}

// FlowBody returns a one-function package whose body is generated from r.
// shadow selects how (if at all) the builtin panic is shadowed.
func FlowBody(r Chooser, maxDepth int) string {
	var sb strings.Builder
	shadow := r.Intn(8)
	sb.WriteString("package p\n\n")
	if shadow == 1 {
		sb.WriteString("func panic(string) {}\n\n")
	}
	if shadow == 2 {
		sb.WriteString("func f(c bool, ch chan int, v any, panic func(string)) int {\n\tx := 0\n")
	} else {
		sb.WriteString("func f(c bool, ch chan int, v any) int {\n\tx := 0\n")
	}
	if shadow == 3 {
		sb.WriteString("\tpanic := func(string) {}\n")
	}
	n := 0
	c := &flowCtx{r: r, sb: &sb, nlabel: &n, ind: "", maxDepth: maxDepth, dupLabel: r.Intn(4) == 0}
	c.block(5)
	sb.WriteString("}\n")
	return sb.String()
}
