package gen

import (
	"fmt"
	"strings"

	"github.com/goplus/gogen/verif/internal/h"
)

// Struct/interface embedding graphs with colliding member names (C08).
// Every member has its own distinct type, so the type of a selector expression identifies the member that was picked.

const FxSel = "fx/sel"

const FxSelSrc = `package sel

type RExp int
type Runexp int
type RPub int
type Rpriv int
type RPtr int

type E struct {
	Exp   RExp
	unexp Runexp
	X     RExp
}

func (E) PubM() RPub     { return 0 }
func (E) privM() Rpriv   { return 0 }
func (*E) PtrM() RPtr    { return 0 }
func (E) M() RPub        { return 0 }

type EI interface {
	PubM() RPub
	privI() Rpriv
}
`

// no two names are equal ignoring case (the builder's lower-case method alias / auto-property sugar is C11's subject)
var selFieldNames = []string{"a", "b", "c", "X", "Y"}
var selMethodNames = []string{"M", "N", "q", "b", "X"} // b and X deliberately collide with field names
var SelProbeNames = []string{"a", "b", "c", "X", "Y", "M", "N", "q", "Exp", "unexp", "PubM", "privM", "PtrM", "privI", "zz"}

type SelGraph struct {
	Decls string
	Roots []string // struct type names to probe
	Ifcs  []string
}

// SelGraphGen builds a random graph: structs S0..Sn-1 (Si may embed Sj for j > i, by value or pointer: depth <= 4),
// interfaces I0..I1, and optional embedding of the foreign sel.E / sel.EI.
func SelGraphGen(r *h.Rand) SelGraph {
	n := 3 + r.Intn(4)
	var sb strings.Builder
	sb.WriteString("import sel \"fx/sel\"\n\nvar _ sel.E\n\n")
	var roots []string
	for i := 0; i < n; i++ {
		name := fmt.Sprintf("S%d", i)
		roots = append(roots, name)
		fmt.Fprintf(&sb, "type %s struct {\n", name)
		used := map[string]bool{}
		for _, f := range selFieldNames {
			if r.Chance(35) {
				fmt.Fprintf(&sb, "\t%s F_%s_%s\n", f, name, f)
				used[f] = true
			}
		}
		embedded := map[string]bool{}
		for j := i + 1; j < n && j <= i+3; j++ {
			if r.Chance(45) && depthOK(i, j) {
				e := fmt.Sprintf("S%d", j)
				if embedded[e] {
					continue
				}
				embedded[e] = true
				if r.Chance(40) {
					sb.WriteString("\t*" + e + "\n")
				} else {
					sb.WriteString("\t" + e + "\n")
				}
			}
		}
		if r.Chance(20) {
			sb.WriteString("\tI0\n")
		}
		if r.Chance(20) {
			if r.Bool() {
				sb.WriteString("\tsel.E\n")
			} else {
				sb.WriteString("\t*sel.E\n")
			}
		} else if r.Chance(10) {
			sb.WriteString("\tsel.EI\n")
		}
		sb.WriteString("}\n")
		for _, f := range selFieldNames {
			if used[f] {
				fmt.Fprintf(&sb, "type F_%s_%s int\n", name, f)
			}
		}
		for _, m := range selMethodNames {
			if used[m] {
				continue // a struct cannot have a field and a method with the same name
			}
			if r.Chance(30) {
				recv := name
				if r.Chance(45) {
					recv = "*" + name
				}
				fmt.Fprintf(&sb, "type R_%s_%s int\nfunc (%s) %s() R_%s_%s { return 0 }\n", name, m, recv, m, name, m)
			}
		}
	}
	sb.WriteString("type RI0M int\ntype RI1N int\ntype I1 interface{ N() RI1N }\ntype I0 interface {\n\tM() RI0M\n\tI1\n}\n")
	return SelGraph{Decls: sb.String(), Roots: roots, Ifcs: []string{"I0", "I1"}}
}

func depthOK(i, j int) bool { return true }

// SelProbes returns the probe statements for one root type and one member name.
func SelProbes(root, name string) []string {
	return []string{
		fmt.Sprintf("var v %s; _ = v.%s", root, name),
		fmt.Sprintf("var p *%s; _ = p.%s", root, name),
		fmt.Sprintf("var v %s; v.%s = v.%s", root, name, name),
		fmt.Sprintf("var p *%s; p.%s = p.%s", root, name, name),
		fmt.Sprintf("_ = %s{}.%s", root, name),
		fmt.Sprintf("_ = (&%s{}).%s", root, name),
		fmt.Sprintf("_ = %s.%s", root, name),
		fmt.Sprintf("_ = (*%s).%s", root, name),
		fmt.Sprintf("var v %s; v.%s()", root, name),
		fmt.Sprintf("%s{}.%s()", root, name),
		fmt.Sprintf("var m map[int]%s; _ = m[0].%s", root, name),
		fmt.Sprintf("var m map[int]%s; m[0].%s()", root, name),
		fmt.Sprintf("var pp **%s; _ = pp.%s", root, name),
		fmt.Sprintf("var f func() %s; _ = f().%s", root, name),
		fmt.Sprintf("var f func() %s; f().%s()", root, name),
	}
}
