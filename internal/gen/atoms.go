package gen

import (
	"fmt"
	"strings"
)

// Atom catalogues (DESIGN.md E3): finite, enumerated completely in the thorough tier.
// An atom is a one-statement program in a fixed environment; Text is its canonical identity.

type Atom struct {
	Cat   string // catalogue
	Strat string // stratum for quick sampling
	Decl  string // extra package-level declarations (optional)
	Stmt  string // statement(s) placed in the body of func atom()
	Ret   string // result list of func atom ("" = none)
}

func (a Atom) Text() string {
	s := a.Stmt
	if a.Decl != "" {
		s = a.Decl + " ;; " + s
	}
	if a.Ret != "" {
		s = "func() " + a.Ret + " { " + s + " }"
	}
	return a.Cat + ": " + s
}

// AtomEnv is the environment every atom lives in.
const AtomEnv = `package main

import "unsafe"

type MyInt int
type MyU8 uint8
type MyStr string
type MyF float64
type MyBool bool
type MySlice []int
type MyMap map[string]int
type MyStruct struct {
	A int
	B string
}
type MyIface interface{ M() int }
type MyFunc func(int) int
type MyPtr *int
type MyChan chan int
type MyArr [3]int
type AliasInt = int

func (MyInt) M() int { return 0 }

type PT struct{ N int }

func (p *PT) Inc(d int) int { p.N += d; return p.N }
func (t PT) Get() int       { return t.N }

type EPT struct {
	PT
	K string
}

var (
	pt   PT
	ppt  *PT
	ept  EPT
	pept *EPT
	b    bool
	i    int
	i8   int8
	i16  int16
	i32  int32
	i64  int64
	u    uint
	u8   uint8
	u16  uint16
	u32  uint32
	u64  uint64
	up   uintptr
	f32  float32
	f64  float64
	c64  complex64
	c128 complex128
	s    string
	r    rune
	mi   MyInt
	mu8  MyU8
	ms   MyStr
	mf   MyF
	mb   MyBool
	p    *int
	pst  *MyStruct
	sl   []int
	bs   []byte
	ss   []string
	ar   [3]int
	par  *[3]int
	m    map[string]int
	mm   MyMap
	msl  MySlice
	ch   chan int
	rch  <-chan int
	sch  chan<- int
	fn   func(int) int
	fn0  func()
	fn2  func() (int, error)
	st   MyStruct
	e    error
	a    any
	mif  MyIface
	uptr unsafe.Pointer
	ai   AliasInt
)

const (
	ci8  int8    = 100
	ci   int     = 7
	cu8  uint8   = 200
	cu   uint    = 3
	cf64 float64 = 2.5
	cs   string  = "s"
	cb   bool    = true
	cmi  MyInt   = 3
	cbig         = 1 << 100
	cflt         = 2.5
)

func two() (int, error) { return 0, nil }
func none()             {}
func vari(xs ...int) int { return 0 }
func takesI8(x int8)     {}
func takesAny(x any)     {}
`

// operand classes: (text, class)
type Operand struct {
	Text  string
	Class string
}

var UntypedConsts = []Operand{
	{"0", "uint"}, {"1", "uint"}, {"-1", "uint"}, {"7", "uint"}, {"127", "uint"}, {"128", "uint"}, {"255", "uint"}, {"256", "uint"}, {"-129", "uint"},
	{"32768", "uint"}, {"2147483648", "uint"}, {"4294967296", "uint"}, {"9223372036854775807", "uint"}, {"9223372036854775808", "ubig"}, {"18446744073709551616", "ubig"},
	{"100000000000000000000", "ubig"}, {"cbig", "ubig"},
	{"2.5", "ufloat"}, {"0.0", "ufloat"}, {"1.0", "ufloat"}, {"2.0", "ufloat"}, {"1e100", "ufloat"}, {"-0.5", "ufloat"}, {"cflt", "ufloat"},
	{"'a'", "urune"}, {"'\\x00'", "urune"},
	{"\"s\"", "ustring"}, {"\"\"", "ustring"},
	{"true", "ubool"}, {"false", "ubool"},
	{"1i", "ucomplex"}, {"0i", "ucomplex"}, {"(1 + 2i)", "ucomplex"},
	{"nil", "nil"},
}

var TypedConsts = []Operand{
	{"int8(100)", "tint"}, {"int8(-128)", "tint"}, {"ci8", "tint"}, {"uint8(200)", "tuint"}, {"uint8(255)", "tuint"}, {"cu8", "tuint"}, {"int(7)", "tint"}, {"ci", "tint"},
	{"int64(4611686018427387904)", "tint"}, {"uint64(9223372036854775808)", "tuint"}, {"uint(3)", "tuint"}, {"cu", "tuint"}, {"int32(-1)", "tint"}, {"uintptr(1)", "tuint"},
	{"float32(2.5)", "tfloat"}, {"float64(2.5)", "tfloat"}, {"cf64", "tfloat"}, {"float64(2)", "tfloat"}, {"complex128(1i)", "tcomplex"}, {"complex64(2)", "tcomplex"},
	{"string(\"s\")", "tstring"}, {"cs", "tstring"}, {"MyStr(\"m\")", "tstring"}, {"MyInt(3)", "tint"}, {"cmi", "tint"}, {"MyBool(true)", "tbool"}, {"cb", "tbool"}, {"rune('x')", "tint"},
	{"MyF(1.5)", "tfloat"}, {"MyU8(9)", "tuint"},
}

var Vars = []Operand{
	{"b", "vbool"}, {"i", "vint"}, {"i8", "vint"}, {"i64", "vint"}, {"u", "vuint"}, {"u8", "vuint"}, {"u64", "vuint"}, {"up", "vuint"}, {"f32", "vfloat"}, {"f64", "vfloat"},
	{"c128", "vcomplex"}, {"s", "vstring"}, {"r", "vint"}, {"mi", "vint"}, {"mu8", "vuint"}, {"ms", "vstring"}, {"mf", "vfloat"}, {"mb", "vbool"},
	{"p", "vptr"}, {"sl", "vslice"}, {"bs", "vslice"}, {"ar", "varray"}, {"m", "vmap"}, {"ch", "vchan"}, {"fn", "vfunc"}, {"st", "vstruct"}, {"e", "viface"}, {"a", "viface"},
	{"mif", "viface"}, {"uptr", "vuptr"}, {"ai", "vint"}, {"msl", "vslice"}, {"pst", "vptr"},
}

var MiscOperands = []Operand{
	{"two()", "multi"}, {"none()", "novalue"}, {"int", "type"}, {"MyStruct", "type"}, {"[]int", "type"}, {"len", "builtin"}, {"unsafe.Sizeof", "builtin"},
	{"MyStruct{}", "vstruct"}, {"[]int{1}", "vslice"}, {"func() {}", "vfunc"}, {"&st", "vptr"}, {"len(s)", "vint"}, {"len(ar)", "tint"}, {"i + 1", "vint"}, {"-f64", "vfloat"},
}

func AllOperands() []Operand {
	var out []Operand
	out = append(out, UntypedConsts...)
	out = append(out, TypedConsts...)
	out = append(out, Vars...)
	return out
}

var BinOps = []string{"+", "-", "*", "/", "%", "&", "|", "^", "&^", "<<", ">>", "==", "!=", "<", "<=", ">", ">=", "&&", "||"}
var UnOps = []string{"+", "-", "!", "^", "<-", "*", "&"}

func opClass(op string) string {
	switch op {
	case "+", "-", "*":
		return "arith"
	case "/", "%":
		return "div"
	case "&", "|", "^", "&^":
		return "bit"
	case "<<", ">>":
		return "shift"
	case "==", "!=":
		return "eq"
	case "<", "<=", ">", ">=":
		return "ord"
	}
	return "logic"
}

// OperatorAtoms: operator × operand × operand.
func OperatorAtoms() []Atom {
	ops := AllOperands()
	var out []Atom
	for _, op := range BinOps {
		for _, x := range ops {
			for _, y := range ops {
				out = append(out, Atom{Cat: "binop", Strat: "binop/" + opClass(op) + "/" + x.Class + "/" + y.Class, Stmt: "_ = " + x.Text + " " + op + " " + y.Text})
			}
		}
		for _, x := range MiscOperands {
			for _, y := range []Operand{{"1", "uint"}, {"i", "vint"}, {"s", "vstring"}, x} {
				out = append(out, Atom{Cat: "binop", Strat: "binop/" + opClass(op) + "/misc", Stmt: "_ = " + x.Text + " " + op + " " + y.Text})
				if y.Text != x.Text {
					out = append(out, Atom{Cat: "binop", Strat: "binop/" + opClass(op) + "/misc", Stmt: "_ = " + y.Text + " " + op + " " + x.Text})
				}
			}
		}
	}
	all := append(append([]Operand{}, ops...), MiscOperands...)
	all = append(all, Operand{"rch", "vchan"}, Operand{"sch", "vchan"}, Operand{"par", "vptr"})
	for _, op := range UnOps {
		for _, x := range all {
			t := x.Text
			if strings.HasPrefix(t, "-") || strings.HasPrefix(t, "&") {
				t = "(" + t + ")"
			}
			out = append(out, Atom{Cat: "unop", Strat: "unop/" + op + "/" + x.Class, Stmt: "_ = " + op + t})
		}
	}
	return out
}

// ShiftAtoms: constant and non-constant shifts with extreme counts.
func ShiftAtoms() []Atom {
	var out []Atom
	lefts := []string{"1", "-1", "i", "u8", "int8(1)", "uint64(1)", "1.0", "2.5", "'a'", "cbig", "f64", "MyInt(1)"}
	counts := []string{"0", "1", "7", "8", "31", "32", "62", "63", "64", "65", "100", "127", "128", "200", "511", "512", "1023", "1074", "1075", "2000", "10000",
		"2147483647", "2147483648", "4294967296", "9223372036854775807", "9223372036854775808", "18446744073709551615", "-1", "-64", "1.0", "2.5", "u", "i", "u8", "uint(70)", "int8(3)", "'b'", "\"s\"", "true", "1i", "0i"}
	for _, op := range []string{"<<", ">>"} {
		for _, l := range lefts {
			for _, c := range counts {
				out = append(out, Atom{Cat: "shift", Strat: "shift/" + op + "/" + l, Stmt: "_ = " + l + " " + op + " " + c})
			}
		}
	}
	for _, c := range counts {
		out = append(out, Atom{Cat: "shift", Strat: "shift/assign", Stmt: "i <<= " + c}, Atom{Cat: "shift", Strat: "shift/assign", Stmt: "u8 >>= " + c})
		out = append(out, Atom{Cat: "shift", Strat: "shift/typedctx", Stmt: "var x int8 = 1 << " + c + "; _ = x"}, Atom{Cat: "shift", Strat: "shift/typedctx", Stmt: "var x float64 = 1 << " + c + "; _ = x"})
		out = append(out, Atom{Cat: "shift", Strat: "shift/nonconst-ctx", Stmt: "var x float64 = 1 << u; _ = x"}, Atom{Cat: "shift", Strat: "shift/nonconst-ctx", Stmt: "_ = sl[1 << " + c + "]"})
	}
	return dedup(out)
}

func dedup(in []Atom) []Atom {
	seen := map[string]bool{}
	var out []Atom
	for _, a := range in {
		if !seen[a.Text()] {
			seen[a.Text()] = true
			out = append(out, a)
		}
	}
	return out
}

var convTargets = []string{"bool", "int", "int8", "int16", "int32", "int64", "uint", "uint8", "uint16", "uint32", "uint64", "uintptr", "float32", "float64", "complex64", "complex128",
	"string", "rune", "byte", "MyInt", "MyU8", "MyStr", "MyF", "MyBool", "*int", "[]int", "[]byte", "[]rune", "[3]int", "*[3]int", "map[string]int", "chan int", "<-chan int", "func(int) int",
	"MyStruct", "struct{A int; B string}", "error", "any", "MyIface", "unsafe.Pointer", "MySlice", "MyMap", "MyFunc", "MyPtr", "MyChan", "MyArr", "AliasInt", "interface{ M() int }"}

// ConversionAtoms: T(v) for every target × every operand.
func ConversionAtoms() []Atom {
	ops := append(AllOperands(), Operand{"rch", "vchan"}, Operand{"par", "vptr"}, Operand{"ss", "vslice"}, Operand{"two()", "multi"}, Operand{"none()", "novalue"}, Operand{"int", "type"})
	var out []Atom
	for _, t := range convTargets {
		tt := t
		if strings.HasPrefix(t, "*") || strings.HasPrefix(t, "<-") || strings.HasPrefix(t, "func") {
			tt = "(" + t + ")"
		}
		for _, v := range ops {
			out = append(out, Atom{Cat: "conv", Strat: "conv/" + t + "/" + v.Class, Stmt: "_ = " + tt + "(" + v.Text + ")"})
		}
		out = append(out, Atom{Cat: "conv", Strat: "conv/arity", Stmt: "_ = " + tt + "()"}, Atom{Cat: "conv", Strat: "conv/arity", Stmt: "_ = " + tt + "(i, i)"},
			Atom{Cat: "conv", Strat: "conv/arity", Stmt: "_ = " + tt + "(sl...)"})
	}
	return out
}

var assignTargets = []string{"bool", "int", "int8", "uint8", "uint16", "int64", "uint64", "uintptr", "float32", "float64", "complex64", "complex128", "string", "rune", "MyInt", "MyU8", "MyStr", "MyF", "MyBool",
	"*int", "[]int", "[3]int", "map[string]int", "chan int", "<-chan int", "chan<- int", "func(int) int", "MyStruct", "struct{A int; B string}", "error", "any", "MyIface", "unsafe.Pointer",
	"MySlice", "MyFunc", "MyPtr", "MyChan", "AliasInt", "[]byte", "*MyStruct", "func()", "interface{ M() int }"}

// AssignAtoms: the same (value, target type) pair asked by every construct.
func AssignAtoms() []Atom {
	ops := append(AllOperands(), Operand{"rch", "vchan"}, Operand{"sch", "vchan"}, Operand{"fn0", "vfunc"}, Operand{"two()", "multi"}, Operand{"none()", "novalue"}, Operand{"int", "type"},
		Operand{"MyStruct{}", "vstruct"}, Operand{"struct{A int; B string}{}", "vstruct"}, Operand{"func(x int) int { return x }", "vfunc"}, Operand{"&i", "vptr"}, Operand{"[]int{}", "vslice"})
	var out []Atom
	for _, t := range assignTargets {
		for _, v := range ops {
			st := "assign/" + t + "/" + v.Class
			out = append(out,
				Atom{Cat: "assign-varinit", Strat: st, Stmt: "var x " + t + " = " + v.Text + "; _ = x"},
				Atom{Cat: "assign-assign", Strat: st, Stmt: "var x " + t + "; x = " + v.Text + "; _ = x"},
				Atom{Cat: "assign-arg", Strat: st, Stmt: "f := func(" + t + ") {}; f(" + v.Text + ")"},
				Atom{Cat: "assign-return", Strat: st, Ret: "(" + t + ")", Stmt: "return " + v.Text},
				Atom{Cat: "assign-elem", Strat: st, Stmt: "_ = []" + t + "{" + v.Text + "}"},
				Atom{Cat: "assign-field", Strat: st, Stmt: "_ = struct{ F " + t + " }{F: " + v.Text + "}"},
				Atom{Cat: "assign-mapval", Strat: st, Stmt: "_ = map[int]" + t + "{1: " + v.Text + "}"},
				Atom{Cat: "assign-send", Strat: st, Stmt: "var c chan " + t + "; c <- " + v.Text},
				// the same question through the multi-value, redeclaring, variadic and element-store paths
				Atom{Cat: "assign-redefine", Strat: st, Stmt: "var x " + t + "; x, k := " + v.Text + ", 1; _, _ = x, k"},
				Atom{Cat: "assign-parallel", Strat: st, Stmt: "var x " + t + "; var k int; k, x = 1, " + v.Text + "; _, _ = x, k"},
				Atom{Cat: "assign-variadic", Strat: st, Stmt: "f := func(n int, xs ..." + t + ") {}; f(1, " + v.Text + ")"},
				Atom{Cat: "assign-deferarg", Strat: st, Stmt: "defer func(" + t + ") {}(" + v.Text + ")"},
				Atom{Cat: "assign-arrayelem", Strat: st, Stmt: "var arr [2]" + t + "; arr[1] = " + v.Text},
				Atom{Cat: "assign-mapstore", Strat: st, Stmt: "var mp map[int]" + t + "; mp[0] = " + v.Text},
				Atom{Cat: "assign-deref", Strat: st, Stmt: "px := new(" + t + "); *px = " + v.Text},
				Atom{Cat: "assign-fieldstore", Strat: st, Stmt: "var sx struct{ F " + t + " }; sx.F = " + v.Text},
				Atom{Cat: "assign-keyedarray", Strat: st, Stmt: "_ = [2]" + t + "{1: " + v.Text + "}"},
			)
		}
		// a variable of every target type on the receiving end of a multi-value call (int, error)
		st := "assign-tuple/" + t
		out = append(out,
			Atom{Cat: "assign-tuple", Strat: st, Stmt: "var x " + t + "; x, e2 := two(); _, _ = x, e2"},
			Atom{Cat: "assign-tuple", Strat: st, Stmt: "var e2 " + t + "; x, e2 := two(); _, _ = x, e2"},
			Atom{Cat: "assign-tuple", Strat: st, Stmt: "var x " + t + "; var e2 error; x, e2 = two(); _, _ = x, e2"},
			Atom{Cat: "assign-tuple", Strat: st, Stmt: "var x int; var e2 " + t + "; x, e2 = two(); _, _ = x, e2"},
			Atom{Cat: "assign-tuple", Strat: st, Stmt: "var x " + t + "; x, _ = two(); _ = x"},
			Atom{Cat: "assign-tuple", Strat: st, Stmt: "var x " + t + "; x, ok := a.(int); _, _ = x, ok"},
			Atom{Cat: "assign-tuple", Strat: st, Stmt: "var ok " + t + "; x, ok := a.(int); _, _ = x, ok"},
			Atom{Cat: "assign-tuple", Strat: st, Stmt: "var x " + t + "; x, ok := m[\"k\"]; _, _ = x, ok"},
			Atom{Cat: "assign-tuple", Strat: st, Stmt: "var ok " + t + "; x, ok := <-ch; _, _ = x, ok"},
			Atom{Cat: "assign-tuple", Strat: st, Ret: "(" + t + ", error)", Stmt: "return two()"},
			Atom{Cat: "assign-tuple", Strat: st, Stmt: "f := func(x " + t + ", e2 error) {}; f(two())"},
		)
	}
	return out
}

// ConstGroupAtoms: parenthesised constant groups with explicit typed / explicit untyped / implicitly repeated specs
// (iota, the type and the expression of the preceding non-empty spec are repeated), followed by one use of the last
// constant whose folded value depends on the constant's type (integer vs float division, complement, mixed addition).
func ConstGroupAtoms() []Atom {
	type spec struct{ text, class string }
	explicit := []spec{
		{"%s uint8 = iota", "tint"}, {"%s float64 = iota", "tfloat"}, {"%s MyInt = iota + 5", "tint"}, {"%s uint8 = 7", "tint"}, {"%s float64 = 7", "tfloat"}, {"%s MyF = 2.5", "tfloat"},
		{"%s = iota", "uint"}, {"%s = 7", "uint"}, {"%s = 2.5", "ufloat"}, {"%s = 1 << iota", "uint"}, {"%s = \"s\"", "ustring"}, {"%s = iota * 2.5", "ufloat"},
	}
	all := append(append([]spec{}, explicit...), spec{"%s", "implicit"})
	// (operators over typed constants are decided - and fail - in the operator catalogue; here one division is enough
	// to make the value depend on the constant's type)
	uses := []string{"_ = %s / 16 * 3", "v := %s; _ = v", "var v float32 = %s; _ = v"} // x/16*3: 0 for every integer constant of the groups (< 16), non-zero for a float one
	var out []Atom
	names := []string{"ka", "kb", "kc", "kd"}
	add := func(specs []spec) {
		var sb strings.Builder
		strat := "constgroup"
		sb.WriteString("const (\n")
		for i, sp := range specs {
			sb.WriteString("\t" + fmt.Sprintf(sp.text, names[i]) + "\n")
			strat += "/" + sp.class
		}
		sb.WriteString(")")
		last := names[len(specs)-1]
		for k, u := range uses {
			out = append(out, Atom{Cat: "constgroup", Strat: fmt.Sprintf("%s/use%d", strat, k), Decl: sb.String(), Stmt: fmt.Sprintf(u, last)})
		}
	}
	for _, a := range explicit {
		for _, b := range all {
			add([]spec{a, b})
			for _, c := range all {
				add([]spec{a, b, c})
				if b.class != "implicit" && c.class == "implicit" {
					add([]spec{a, b, c, {"%s", "implicit"}})
				}
			}
		}
	}
	// specs with two names: the implicit repetition repeats BOTH expressions, each column keeps its own type
	explicit2 := []spec{
		{"%[1]s, %[1]sx = iota, iota * 2.5", "uint+ufloat"}, {"%[1]s, %[1]sx = uint8(iota), \"s\"", "tint+ustring"}, {"%[1]s, %[1]sx float64 = iota, 7", "tfloat+tfloat"},
		{"%[1]s, %[1]sx = 2.5, iota", "ufloat+uint"}, {"%[1]s, %[1]sx = iota + 1, 1 << iota", "uint+uint"}, {"%[1]s, %[1]sx = MyInt(iota), float32(iota)", "tint+tfloat"},
		{"%[1]s, %[1]sx = 'a', iota", "urune+uint"}, {"%[1]s, %[1]sx = iota, 2i", "uint+ucomplex"},
	}
	// (operators over typed constants, rune + int and constant comparisons - emitted folded - are decided - and fail - in the operator catalogue: not used here)
	imp2 := spec{"%[1]s, %[1]sx", "implicit2"}
	uses2 := []string{"v := %[1]sx; _ = v", "_ = %[1]sx", "v, w := %[1]s, %[1]sx; _, _ = v, w"}
	add2 := func(specs []spec) {
		var sb strings.Builder
		strat := "constgroup2"
		sb.WriteString("const (\n")
		for i, sp := range specs {
			sb.WriteString("\t" + fmt.Sprintf(sp.text, names[i]) + "\n")
			strat += "/" + sp.class
		}
		sb.WriteString(")")
		last := names[len(specs)-1]
		for k, u := range uses2 {
			out = append(out, Atom{Cat: "constgroup", Strat: fmt.Sprintf("%s/use%d", strat, k), Decl: sb.String(), Stmt: fmt.Sprintf(u, last)})
		}
	}
	for _, a := range explicit2 {
		add2([]spec{a})
		add2([]spec{a, imp2})
		add2([]spec{a, imp2, imp2})
		for _, b := range explicit2 {
			add2([]spec{a, b, imp2})
			add2([]spec{a, imp2, b, imp2})
		}
	}
	return dedup(out)
}

// CompareAtoms: `_ = v == w` over composite operand classes too (comparability).
func CompareAtoms() []Atom {
	ops := append(AllOperands(), Operand{"rch", "vchan"}, Operand{"sch", "vchan"}, Operand{"fn0", "vfunc"}, Operand{"MyStruct{}", "vstruct"}, Operand{"struct{A int; B string}{}", "vstruct"},
		Operand{"[3]int{}", "varray"}, Operand{"[2]int{}", "varray"}, Operand{"struct{ F []int }{}", "vstruct"}, Operand{"[1][]int{}", "varray"}, Operand{"&i", "vptr"}, Operand{"par", "vptr"},
		Operand{"mm", "vmap"}, Operand{"ss", "vslice"}, Operand{"(*int)(nil)", "vptr"}, Operand{"error(nil)", "viface"}, Operand{"any(1)", "viface"}, Operand{"any(sl)", "viface"})
	var out []Atom
	for _, x := range ops {
		for _, y := range ops {
			out = append(out, Atom{Cat: "compare", Strat: "compare/" + x.Class + "/" + y.Class, Stmt: "_ = " + x.Text + " == " + y.Text})
		}
	}
	for _, x := range ops {
		out = append(out, Atom{Cat: "switchcase", Strat: "case/" + x.Class, Stmt: "switch i { case " + x.Text + ": }"},
			Atom{Cat: "switchcase", Strat: "case/" + x.Class, Stmt: "switch " + x.Text + " { case 1: }"},
			Atom{Cat: "switchcase", Strat: "case/" + x.Class, Stmt: "switch a { case " + x.Text + ": }"},
			Atom{Cat: "switchcase", Strat: "case/" + x.Class, Stmt: "switch { case " + x.Text + ": }"})
	}
	return dedup(out)
}

// BuiltinAtoms: builtin × argument classes.
func BuiltinAtoms() []Atom {
	args := append(AllOperands(), Operand{"rch", "vchan"}, Operand{"sch", "vchan"}, Operand{"par", "vptr"}, Operand{"ss", "vslice"}, Operand{"two()", "multi"}, Operand{"none()", "novalue"},
		Operand{"int", "type"}, Operand{"[]int", "type"}, Operand{"map[string]int", "type"}, Operand{"chan int", "type"}, Operand{"MyStruct", "type"}, Operand{"[3]int{}", "varray"},
		Operand{"\"hello\"", "ustring"}, Operand{"fn(1)", "vint"}, Operand{"[2]int{1, 2}", "varray"}, Operand{"*par", "varray"}, Operand{"st.A", "vint"}, Operand{"pst.B", "vstring"}, Operand{"st", "vstruct"})
	var out []Atom
	add := func(strat, stmt string) {
		out = append(out, Atom{Cat: "builtin", Strat: "builtin/" + strat, Stmt: stmt})
	}
	for _, f := range []string{"len", "cap", "real", "imag", "new", "panic", "print", "println", "close", "clear", "recover", "unsafe.Sizeof", "unsafe.Alignof", "unsafe.Offsetof", "unsafe.StringData", "unsafe.SliceData", "min", "max"} {
		for _, x := range args {
			if f == "panic" || f == "print" || f == "println" || f == "close" || f == "clear" {
				add(f+"/"+x.Class, f+"("+x.Text+")")
			} else {
				add(f+"/"+x.Class, "_ = "+f+"("+x.Text+")")
			}
		}
		add(f+"/arity", "_ = "+f+"()")
	}
	small := []Operand{{"1", "uint"}, {"-1", "uint"}, {"2.5", "ufloat"}, {"2.0", "ufloat"}, {"'a'", "urune"}, {"\"s\"", "ustring"}, {"true", "ubool"}, {"1i", "ucomplex"}, {"nil", "nil"}, {"cbig", "ubig"},
		{"int8(100)", "tint"}, {"uint8(200)", "tuint"}, {"float32(2.5)", "tfloat"}, {"cf64", "tfloat"}, {"cs", "tstring"}, {"cmi", "tint"}, {"i", "vint"}, {"i8", "vint"}, {"u8", "vuint"}, {"f32", "vfloat"}, {"f64", "vfloat"},
		{"s", "vstring"}, {"mi", "vint"}, {"mf", "vfloat"}, {"b", "vbool"}, {"c128", "vcomplex"}, {"sl", "vslice"}, {"a", "viface"}, {"two()", "multi"}}
	for _, f := range []string{"min", "max", "complex"} {
		for _, x := range small {
			for _, y := range small {
				add(f+"2/"+x.Class+"/"+y.Class, "_ = "+f+"("+x.Text+", "+y.Text+")")
			}
		}
		add(f+"/3", "_ = "+f+"(1, 2.5, 'a')")
		add(f+"/3", "_ = "+f+"(i, 1, 2)")
		add(f+"/3", "_ = "+f+"(f64, 1, i)")
	}
	for _, x := range args {
		for _, y := range small {
			add("append/"+x.Class+"/"+y.Class, "_ = append("+x.Text+", "+y.Text+")")
			add("copy/"+x.Class+"/"+y.Class, "_ = copy("+x.Text+", "+y.Text+")")
			add("delete/"+x.Class+"/"+y.Class, "delete("+x.Text+", "+y.Text+")")
			add("make/"+x.Class+"/"+y.Class, "_ = make("+x.Text+", "+y.Text+")")
			add("unsafeAdd/"+x.Class+"/"+y.Class, "_ = unsafe.Add("+x.Text+", "+y.Text+")")
			add("unsafeSlice/"+x.Class+"/"+y.Class, "_ = unsafe.Slice("+x.Text+", "+y.Text+")")
			add("unsafeString/"+x.Class+"/"+y.Class, "_ = unsafe.String("+x.Text+", "+y.Text+")")
		}
	}
	for _, s := range []string{"_ = append(sl, sl...)", "_ = append(bs, s...)", "_ = append(bs, \"x\"...)", "_ = append(sl, 1, 2, 3)", "_ = append(sl)", "_ = append()", "_ = append(msl, 1)", "_ = append(msl, sl...)",
		"_ = append(ss, s)", "_ = append(sl, ss...)", "_ = append([]any{}, 1, \"a\", nil)", "_ = copy(bs, s)", "_ = copy(bs, \"lit\")", "_ = copy(sl, sl)", "_ = copy(sl, ss)", "_ = make([]int, 1, 2)", "_ = make([]int, 2, 1)",
		"_ = make([]int, -1)", "_ = make([]int, 1<<70)", "_ = make(map[string]int)", "_ = make(map[string]int, 10)", "_ = make(chan int, 1)", "_ = make([]int)", "_ = make(MySlice, 3)", "_ = make(MyMap)", "_ = make(MyChan)",
		"_ = make([]int, 2.0)", "_ = make([]int, 2.5)", "_ = make([]int, f64)", "_ = make([]int, i8)", "_ = make([]int, u64, up)", "_ = len(\"abc\")", "_ = len([3]int{})", "_ = len(ar)", "_ = len(par)", "_ = len(*par)",
		"_ = cap(ar)", "_ = cap(m)", "_ = len([2]int{fn(1), 2})", "_ = len([1]chan int{ch})", "_ = len(fn2)", "const k = len(ar); _ = k", "const k = len(sl); _ = k", "const k = len(\"ab\") + cap(ar); _ = k",
		"const k = unsafe.Sizeof(i); _ = k", "const k = unsafe.Sizeof(st); _ = k", "const k = unsafe.Offsetof(st.B); _ = k", "const k = unsafe.Alignof(c128); _ = k", "const k = unsafe.Sizeof(s) + unsafe.Sizeof(sl); _ = k",
		"const k = unsafe.Sizeof(a); _ = k", "_ = unsafe.Offsetof(pst.B)", "_ = unsafe.Offsetof(i)", "_ = unsafe.Sizeof(int)", "const k = real(1 + 2i); _ = k", "const k = imag(2.5); _ = k", "const k = complex(1, 2); _ = k",
		"const k = complex(1, i); _ = k", "const k = min(1, 2.5); _ = k", "const k = max(\"a\", \"b\"); _ = k", "const k = min(i, 1); _ = k", "var x int8 = min(1, 200); _ = x", "var x int8 = max(1, 100); _ = x",
		"_ = new(int)", "_ = new(MyStruct)", "_ = new(1)", "_ = new(int, 1)", "close(ch)", "close(rch)", "close(sch)", "clear(m)", "clear(sl)", "clear(ar)", "clear(s)", "defer recover()", "go println(1)", "defer panic(1)", "defer len(s)",
		"go func() {}()", "defer func() { recover() }()", "go fn(1)", "defer fn0()", "go i", "defer 1", "go two()", "x := recover(); _ = x", "print()", "println(two())", "panic()", "panic(1, 2)", "panic(two())"} {
		add("special", s)
	}
	return dedup(out)
}

// AccessAtoms: index / slice / deref / address / assertion / selector / receive over every operand class.
func AccessAtoms() []Atom {
	xs := append(AllOperands(), Operand{"rch", "vchan"}, Operand{"sch", "vchan"}, Operand{"par", "vptr"}, Operand{"ss", "vslice"}, Operand{"two()", "multi"}, Operand{"none()", "novalue"}, Operand{"int", "type"},
		Operand{"mm", "vmap"}, Operand{"\"lit\"", "ustring"}, Operand{"[3]int{}", "varray"}, Operand{"fn2", "vfunc"}, Operand{"map[int]string{}", "vmap"}, Operand{"map[MyInt]bool{}", "vmap"}, Operand{"[]string{\"a\"}", "vslice"})
	idx := []Operand{{"0", "uint"}, {"1", "uint"}, {"2", "uint"}, {"3", "uint"}, {"5", "uint"}, {"-1", "uint"}, {"1.0", "ufloat"}, {"2.5", "ufloat"}, {"'a'", "urune"}, {"\"k\"", "ustring"}, {"true", "ubool"}, {"nil", "nil"}, {"1i", "ucomplex"},
		{"cbig", "ubig"}, {"i", "vint"}, {"i8", "vint"}, {"u8", "vuint"}, {"u64", "vuint"}, {"f64", "vfloat"}, {"s", "vstring"}, {"ms", "vstring"}, {"mi", "vint"}, {"b", "vbool"}, {"a", "viface"}, {"int8(2)", "tint"}, {"cf64", "tfloat"}, {"float64(2)", "tfloat"}, {"two()", "multi"}}
	var out []Atom
	add := func(strat, stmt string) { out = append(out, Atom{Cat: "access", Strat: "access/" + strat, Stmt: stmt}) }
	for _, x := range xs {
		for _, k := range idx {
			add("index/"+x.Class+"/"+k.Class, "_ = "+x.Text+"["+k.Text+"]")
			add("slice/"+x.Class+"/"+k.Class, "_ = "+x.Text+"["+k.Text+":]")
			add("slice2/"+x.Class+"/"+k.Class, "_ = "+x.Text+"[1:"+k.Text+"]")
		}
		add("slice3/"+x.Class, "_ = "+x.Text+"[0:1:2]")
		add("slice3/"+x.Class, "_ = "+x.Text+"[:1:2]")
		add("slice3/"+x.Class, "_ = "+x.Text+"[2:1]")
		add("slice3/"+x.Class, "_ = "+x.Text+"[2:1:0]")
		add("slice3/"+x.Class, "_ = "+x.Text+"[:]")
		add("indexset/"+x.Class, x.Text+"[1] = 1")
		add("indexset/"+x.Class, x.Text+"[\"k\"] = 1")
		add("commaok/"+x.Class, "v, ok := "+x.Text+"[\"k\"]; _, _ = v, ok")
		add("commaok/"+x.Class, "v, ok := "+x.Text+"[1]; _, _ = v, ok")
		add("commaok/"+x.Class, "v, ok := <-"+x.Text+"; _, _ = v, ok")
		add("commaok/"+x.Class, "v, ok := "+x.Text+".(int); _, _ = v, ok")
		for _, t := range []string{"int", "string", "error", "MyIface", "MyInt", "*int", "[]int", "any", "MyStruct", "interface{ N() }"} {
			add("assert/"+x.Class+"/"+t, "_ = "+x.Text+".("+t+")")
		}
		for _, f := range []string{"A", "B", "M", "Error", "x", "Len"} {
			add("sel/"+x.Class+"/"+f, "_ = "+x.Text+"."+f)
		}
		add("selset/"+x.Class, x.Text+".A = 1")
		add("incdec/"+x.Class, x.Text+"++")
		add("incdec/"+x.Class, x.Text+"--")
		add("send/"+x.Class, x.Text+" <- 1")
		add("send/"+x.Class, "ch <- "+x.Text)
		add("range/"+x.Class, "for range "+x.Text+" {}")
		add("range/"+x.Class, "for k := range "+x.Text+" { _ = k }")
		add("range/"+x.Class, "for k, v := range "+x.Text+" { _, _ = k, v }")
		add("range/"+x.Class, "for _, v := range "+x.Text+" { _ = v }")
		add("range/"+x.Class, "var k, v int; for k, v = range "+x.Text+" {}; _, _ = k, v")
		add("cond/"+x.Class, "if "+x.Text+" {}")
		add("cond/"+x.Class, "for "+x.Text+" {}")
		add("cond/"+x.Class, "for ; "+x.Text+"; {}")
		add("stmt/"+x.Class, x.Text)
		add("call/"+x.Class, x.Text+"()")
		add("call/"+x.Class, "_ = "+x.Text+"(1)")
		add("callarg/"+x.Class, "_ = fn("+x.Text+")")
		add("callarg/"+x.Class, "_ = vari("+x.Text+")")
		add("callarg/"+x.Class, "_ = vari(1, "+x.Text+")")
		add("callarg/"+x.Class, "_ = vari("+x.Text+"...)")
		add("callarg/"+x.Class, "takesI8("+x.Text+")")
		add("callarg/"+x.Class, "takesAny("+x.Text+")")
		add("callarg/"+x.Class, "_ = fn(1, "+x.Text+")")
		add("return/"+x.Class, "return "+x.Text)
		add("define/"+x.Class, "x := "+x.Text+"; _ = x")
		add("define/"+x.Class, "x, y := "+x.Text+"; _, _ = x, y")
		add("define/"+x.Class, "var x = "+x.Text+"; _ = x")
		add("define/"+x.Class, "x, y := 1, "+x.Text+"; _, _ = x, y")
		add("blank/"+x.Class, "_ = "+x.Text)
		for _, op := range []string{"+=", "-=", "*=", "/=", "%=", "&=", "|=", "^=", "&^=", "<<=", ">>="} {
			add("opassign/"+op+"/"+x.Class, "i "+op+" "+x.Text)
			add("opassign/"+op+"/"+x.Class, "f64 "+op+" "+x.Text)
			add("opassign/"+op+"/"+x.Class, "s "+op+" "+x.Text)
			add("opassign/"+op+"/"+x.Class, "u8 "+op+" "+x.Text)
			add("opassign-lhs/"+op+"/"+x.Class, x.Text+" "+op+" 1")
		}
	}
	// method values and method expressions, value and pointer receivers, through variables, pointers and embedding
	// (T.PtrMethod is not Go; the builder accepts it and emits (*T).PtrMethod)
	for _, recv := range []string{"PT", "(*PT)", "EPT", "(*EPT)", "pt", "ppt", "(*ppt)", "(&pt)", "ept", "pept", "ept.PT", "(&ept.PT)", "PT{}", "(&PT{})", "EPT{}"} {
		for _, m := range []string{"Inc", "Get"} {
			add("method/"+recv+"."+m, "_ = "+recv+"."+m)
			add("method/"+recv+"."+m, "f := "+recv+"."+m+"; _ = f")
			add("method/"+recv+"."+m, "var f = "+recv+"."+m+"; _ = f")
		}
		add("method/"+recv+".call", "_ = "+recv+".Inc(1)")
		add("method/"+recv+".call", "_ = "+recv+".Get()")
		add("method/"+recv+".call", "_ = "+recv+".Inc(&pt, 1)")
		add("method/"+recv+".call", "_ = "+recv+".Inc(pt, 1)")
		add("method/"+recv+".call", "_ = "+recv+".Get(pt)")
		add("method/"+recv+".call", "_ = "+recv+".Get(ppt)")
		add("method/"+recv+".call", "x := "+recv+".Get(ept); _ = x")
		add("method/"+recv+".call", "x := "+recv+".Inc(pept, 2); _ = x")
	}
	// keyed array and slice literals: keys in and out of order, open arrays whose length is the largest index + 1
	for _, lit := range []string{"[...]int{5: 1, 2: 3}", "[...]int{2: 3, 5: 1}", "[...]string{3: \"x\", 0: \"y\", \"z\"}", "[...]int{9: 1, 2}", "[...]int{1, 2, 3}", "[...]int{}", "[...]int{4: 0}", "[...]int{4: 0, 1: 1, 2}",
		"[...]int{7: 1, 0: 2, 3: 4, 5}", "[...]MyInt{2: 1, 0: 5}", "[...][2]int{1: {1, 2}, 0: {3}}", "[...]int{1: 1, 1: 2}", "[...]int{-1: 1}", "[...]int{i: 1}", "[...]int{ci: 1, 2}", "[...]int{'a': 1}", "[...]int{1.0: 1}", "[...]int{2.5: 1}",
		"[4]int{3: 1, 0: 2}", "[4]int{3: 1, 2}", "[4]int{4: 1}", "[2]int{1, 2, 3}", "[]int{5: 1, 2: 3}", "[]int{3: 1, 2}", "[]string{2: \"a\", 0: \"b\"}", "[]int{1: 1, 1: 2}", "[]int{-1: 1}", "[]int{i: 1}",
		"map[int]int{1: 1, 1: 2}", "map[string]int{\"a\": 1, \"a\": 2}", "[...]struct{ A int }{2: {1}, {2}}", "[...]*MyStruct{1: {A: 1}, 0: nil}"} {
		add("keyedlit/"+lit, "_ = "+lit)
		add("keyedlit/"+lit+"/define", "x := "+lit+"; _ = x")
		add("keyedlit/"+lit, "_ = len("+lit+")")
		add("keyedlit/"+lit, "var x = "+lit+"; _ = x[0]")
	}
	// a label as the last item of a block (Go: the label of an empty statement), in every kind of block
	for _, body := range []string{"goto L; L:", "for i := 0; i < 2; i++ { if i > 0 { continue }; goto L; L: }", "if b { goto L; L: }", "if b { } else { goto L; L: }", "switch { case b: goto L; L: }", "switch i { default: goto L; L: }",
		"{ goto L; L: }", "func() { goto L; L: }()", "select { default: goto L; L: }", "for range sl { goto L; L: }", "switch a.(type) { case int: goto L; L: }", "for { goto L; L: }", "L: for { break L }; goto M; M:", "if b { goto L }; L:",
		"for i := range 3 { _ = i; goto L; L: }", "_ = func() int { goto L; L: return 1 }", "defer func() { goto L; L: }()"} {
		add("labelend/"+body, body)
	}
	for _, s := range []string{"_ = st.A", "_ = pst.A", "_ = (*pst).B", "_ = (&st).A", "_ = mi.M()", "_ = mi.M", "_ = MyInt.M", "_ = (*MyInt).M", "_ = mif.M()", "_ = e.Error()", "_ = st.C", "_ = i.x", "_ = unsafe.Pointer(p)",
		"_ = *p", "_ = *pst", "_ = **&p", "_ = &i", "_ = &st.A", "_ = &sl[0]", "_ = &ar[1]", "_ = &m[\"k\"]", "_ = &s[0]", "_ = &fn", "_ = &MyStruct{}", "_ = &[]int{1}", "_ = &1", "_ = &i8", "_ = &two",
		"_ = ar[3]", "_ = ar[2]", "_ = par[3]", "_ = [3]int{}[3]", "_ = \"abc\"[3]", "_ = \"abc\"[2]", "const k = \"abc\"[1]; _ = k", "_ = sl[1<<62]", "_ = ar[-1]", "_ = sl[-1]", "_ = s[1:0]", "_ = \"abc\"[1:4]", "_ = ar[1:4]",
		"_ = ar[:]", "_ = [3]int{}[:]", "_ = par[:]", "_ = s[::]", "_ = s[0:1:1]", "_ = m[\"a\"]", "_ = m[1]", "_ = mm[ms]", "_ = mm[s]", "m[\"a\"]++", "m[\"a\"] += 1", "st.A++", "pst.A--", "ar[0]++", "s[0]++", "*p++", "*p += 2",
		"i, s = 1, \"a\"", "i, s = s, i", "i, i8 = 1, 2", "i, _ = two()", "_, e = two()", "i, e = two()", "s, e = two()", "i = two()", "i, e, b = two()", "i, s := two()", "_ = two", "x, y := two(); _, _ = x, y", "var x, y = two(); _, _ = x, y",
		"var x, y int = two(); _, _ = x, y", "var x int; x, y := 1, 2; _, _ = x, y", "x := 1; x := 2; _ = x", "x := 1; x, y := 2, 3; _, _ = x, y", "_ := 1", "_, _ = 1, 2", "_ = nil", "x := nil; _ = x", "var x = nil; _ = x",
		"v, ok := m[\"k\"]; _, _ = v, ok", "v, ok := a.(int); _, _ = v, ok", "v, ok := <-ch; _, _ = v, ok", "v, ok := <-rch; _, _ = v, ok", "var v int; var ok bool; v, ok = m[\"k\"]; _, _ = v, ok", "var v int; var ok MyBool; v, ok = m[\"k\"]; _, _ = v, ok",
		"var v int; var ok int; v, ok = m[\"k\"]; _, _ = v, ok", "v, ok := sl[0]; _, _ = v, ok", "v, ok := fn(1); _, _ = v, ok", "v := <-sch; _ = v", "rch <- 1", "ch <- \"s\"", "ch <- 1.0", "ch <- 2.5", "<-ch", "<-fn0",
		"switch x := a.(type) { case int: _ = x; case string, error: _ = x; case nil: _ = x; default: _ = x }", "switch a.(type) { case int, int: }", "switch i.(type) { case int: }", "switch x := mif.(type) { case MyInt: _ = x; case MyStruct: _ = x }",
		"switch e.(type) { case int: }", "switch a.(type) { case 1: }", "switch x := a.(type) { }", "switch i { case 1, 2: case 1: }", "switch i { case 1.0: case 2.5: }", "switch s { case \"a\": case 1: }", "switch f64 { case 1, i: }", "switch { case i > 0: case s: }",
		"switch i { default: default: }", "switch a { case sl: }", "switch a { case fn: }", "switch sl { case nil: }", "switch fn { case nil: }", "switch m { case nil: case mm: }", "switch e { case nil: case e: }", "switch st { case MyStruct{}: }",
		"select { case v := <-ch: _ = v; case ch <- 1: default: }", "select { case v, ok := <-rch: _, _ = v, ok }", "select { case sch <- 1: }", "select { case <-sch: }", "select { case rch <- 1: }", "select { case v := <-i: _ = v }", "select { case i = <-ch: }", "select { case s = <-ch: }",
		"for i := 0; i < 3; i++ {}", "for i := range 3 { _ = i }", "for i := range u8 { _ = i }", "for i := range 2.5 { _ = i }", "for i := range cbig { _ = i }", "for i, j := range 3 { _, _ = i, j }", "for i := range f64 { _ = i }", "var k uint8; for k = range 300 {}",
		"for k, v := range s { _, _ = k, v }", "for k, v := range m { _, _ = k, v }", "for v := range ch { _ = v }", "for k, v := range ch { _, _ = k, v }", "for k, v := range par { _, _ = k, v }", "for k := range fn0 { _ = k }",
		"for k := range func(yield func(int) bool) {} { _ = k }", "for k, v := range func(yield func(int, string) bool) {} { _, _ = k, v }", "for range func(yield func() bool) {} {}", "for k := range func(yield func() bool) {} { _ = k }",
		"for k := range func(yield func(int)) {} { _ = k }", "var k string; for k = range sl {}", "var k int; var v string; for k, v = range sl {}; _ = v", "for st.A = range sl {}", "for ar[0], m[\"k\"] = range sl {}",
		"L: for { break L }", "L: for { continue L }", "L: { break L }", "L: { continue L }", "for { break M }", "goto L; L:", "L: ; L: ;", "break", "continue", "for { fallthrough }", "switch i { case 1: fallthrough; case 2: }", "switch i { case 1: fallthrough }",
		"switch a.(type) { case int: fallthrough; default: }", "if i := 1; i > 0 {} else if j := 2; j > i {} else { _ = j }", "if x := two(); x {}", "if i := 1; i {}", "{ var i string; _ = i }; i = 1", "var i string; i = 1",
		"func() { return 1 }()", "_ = func() int { return }()", "_ = func() int { return 1, 2 }()", "_ = func() (int, error) { return two() }", "_ = func() (int, string) { return two() }", "_ = func() (x int) { return }()", "_ = func() (x int, e error) { x, e = two(); return }",
		"_ = func(x int, x string) {}", "_ = func(x int) (x string) { return }", "_ = func(xs ...int, y int) {}", "_ = func(xs ...int) { _ = xs[0] }", "fn = func(x int) int { return x }", "fn = func(x int8) int { return 1 }", "fn0 = none", "fn2 = two", "fn = MyFunc(nil)",
		"var f MyFunc = fn; _ = f", "var f MyFunc = func(x int) int { return x }; fn = f", "_ = MyStruct{1, \"a\"}", "_ = MyStruct{A: 1}", "_ = MyStruct{B: 1}", "_ = MyStruct{1}", "_ = MyStruct{1, \"a\", 3}", "_ = MyStruct{A: 1, A: 2}", "_ = MyStruct{C: 1}",
		"_ = MyStruct{A: 1, \"a\"}", "_ = []int{1, 2.0, 'a'}", "_ = []int{1, 2.5}", "_ = []int{0: 1, 0: 2}", "_ = []int{2: 1, 5}", "_ = []int{-1: 1}", "_ = []int{\"a\": 1}", "_ = []int{i: 1}", "_ = []int{ci: 1}", "_ = [3]int{1, 2, 3, 4}", "_ = [3]int{3: 1}",
		"_ = [...]int{1, 2, 3}", "_ = [...]int{5: 1}", "_ = [2][]int{{1}, {2, 3}}", "_ = []*MyStruct{{A: 1}, {B: \"x\"}}", "_ = map[string]MyStruct{\"a\": {1, \"b\"}}", "_ = map[MyStruct]int{{1, \"a\"}: 1}", "_ = map[string]int{\"a\": 1, \"a\": 2}",
		"_ = map[string]int{\"a\": 1, s: 2}", "_ = map[string]int{1: 1}", "_ = map[string]int{\"a\"}", "_ = map[any]int{1: 1, 1.0: 2}", "_ = map[any]int{1: 1, \"1\": 2, nil: 3}", "_ = map[[]int]int{}", "_ = map[fnT]int{}", "_ = MyMap{\"a\": 1}", "_ = MySlice{1, 2}",
		"_ = MyArr{1, 2, 3}", "_ = MyArr{1, 2, 3, 4}", "_ = MyPtr{}", "_ = MyInt{}", "_ = int{1}", "_ = struct{}{}", "_ = struct{ A, B int }{1, 2}", "_ = struct{ int }{1}", "_ = struct{ a int; a string }{}", "_ = [i]int{}", "_ = [-1]int{}", "_ = [2.0]int{}",
		"_ = [2.5]int{}", "_ = [cbig]int{}", "_ = [ci]int{}", "_ = [len(ar)]int{}", "var x [unsafe.Sizeof(i)]int; _ = x", "type T struct{ T }; _ = T{}", "type T []T; _ = T{}", "type T [1]T; _ = T{}", "type T = T", "type T interface{ T }", "type T int; type T string",
		"type T int; func (T) m() {}", "type T int; var x T = 1; _ = x + 1; _ = x + i", "type T struct{ x int }; _ = T{1}.x", "type T[P any] struct{ v P }; _ = T[int]{1}.v", "type T[P any] struct{ v P }; _ = T{1}", "type T[P any] []P; _ = T[string]{\"a\"}[0]",
		"type T[P int] struct{}; _ = T[string]{}", "type T[P comparable] struct{}; _ = T[[]int]{}", "type T[P any, Q any] struct{}; _ = T[int]{}", "_ = any(1).(int)", "_ = a.(int) + 1", "_ = a.(MyIface).M()", "_ = mif.(MyInt)", "_ = mif.(MyStr)", "_ = e.(MyIface)",
		"_ = e.(error)", "_ = e.(interface{ Error() int })", "_ = a.(nil)", "_ = a.(a)", "_ = i8 + 1", "_ = i8 + 127 + 1", "_ = i8 + (127 + 1)", "_ = 1 + 2*3 - 4/2%3", "_ = 1.0 * 3 / 2", "_ = 3 / 2 * 1.0", "_ = 7 / 2.0", "_ = 1 << 3 >> 1", "_ = 1 &^ 3 | 4 ^ 2",
		"_ = (1 + 2) == 3 && !false || 2 > 1.5", "_ = \"a\" + \"b\" < \"c\"", "_ = 'a' + 1", "_ = 'a' * 2.0", "_ = 'a' / 2.5", "_ = 1i * 1i", "_ = (1 + 2i) / (3 - 4i)", "_ = real(1i*1i) + 2", "_ = -(-128)", "_ = -int8(-128)", "_ = ^0", "_ = ^uint8(1)", "_ = ^int8(1)",
		"_ = +\"s\"", "_ = !0", "_ = -true", "_ = ^1.5", "_ = ^1.0", "_ = 5.0 % 2", "_ = 5 % 2.0", "_ = 1 / 0", "_ = 1.0 / 0", "_ = 1 / 0.0", "_ = 1 % 0", "_ = i / 0", "_ = i % 0", "_ = f64 / 0", "_ = i / 0.0", "_ = c128 / 0", "_ = i8 / int8(0)", "i /= 0", "i %= 0", "f64 /= 0",
		"_ = uint8(255) + 1", "_ = uint8(200) + uint8(100)", "_ = int8(100) * 2", "_ = int8(-128) / -1", "_ = -int8(-128)", "_ = uint8(1) - 2", "_ = uint8(1) << 8", "_ = uint8(1) << 7", "_ = int8(1) << 7", "_ = int64(1) << 63", "_ = uint64(1) << 64",
		"_ = float32(1e38) * 10", "_ = float32(1e38) * 100", "_ = float64(1e308) * 10", "_ = 1e308 * 10", "_ = 1e1000", "_ = 1e-1000", "_ = float32(1e-50)", "_ = float32(1e39)", "_ = float64(1e309)", "_ = complex64(1e39)", "_ = int(1e3)", "_ = int(1.5e3)", "_ = int(1e30)",
		"_ = uint8(1e2)", "_ = uint8(2.56e2)", "_ = int8(cflt)", "_ = int8(2.0)", "_ = string(65)", "_ = string(-1)", "_ = string(1 << 40)", "_ = string('a')", "_ = string(65.0)", "_ = string(i64)", "_ = string(f64)", "_ = string(bs)", "_ = string([]rune{1})",
		"_ = []byte(\"s\")", "_ = []rune(s)", "_ = []byte(ms)", "_ = MyStr(bs)", "_ = []MyU8(s)", "_ = []int(s)", "_ = *(*int)(uptr)", "_ = uintptr(uptr)", "_ = unsafe.Pointer(up)", "_ = unsafe.Pointer(&i)", "_ = unsafe.Pointer(i)", "_ = (*int)(&i8)",
		"_ = (*MyInt)(&i)", "_ = (*int)(&mi)", "_ = (*[3]int)(sl)", "_ = [3]int(sl)", "_ = [4]int(ar)", "_ = []int(ar)", "_ = MyArr(sl)", "_ = (func())(nil)", "_ = (chan int)(rch)", "_ = (<-chan int)(ch)", "_ = MyChan(ch)", "_ = (chan<- int)(MyChan(nil))",
		"_ = struct{ A int; B string }(st)", "_ = MyStruct(struct{ A int; B string }{})", "_ = MyStruct(struct{ A int; C string }{})", "_ = MyStruct(struct{ A int; B string \"tag\" }{})", "_ = (*MyStruct)(&struct{ A int; B string }{})",
		"_ = MyIface(mi)", "_ = MyIface(i)", "_ = MyIface(&mi)", "_ = error(nil)", "_ = error(mi)", "_ = any(nil)", "_ = (any)(two())", "_ = int(two())", "_ = MyInt(f64)", "_ = MyF(mi)", "_ = MyBool(1)", "_ = bool(1)", "_ = int(true)", "_ = int(\"1\")", "_ = float64(\"1\")",
		"_ = int(nil)", "_ = (*int)(nil)", "_ = []int(nil)", "_ = map[string]int(nil)", "_ = MyStruct(nil)", "_ = complex128(f64)", "_ = float64(c128)", "_ = complex64(1)", "_ = float64(1i)", "_ = float64(0i)", "_ = int(1 + 0i)", "_ = int(2.0 + 0i)",
	} {
		add("special", s)
	}
	return dedup(out)
}

// NestedConst returns a random nested constant expression (C04). Layering rule: only untyped operands are used —
// typed constant operands have recorded findings at the atom layer (results reported untyped, no wrap/overflow check,
// no rounding to the operand type) and would re-report them through every nesting. kind 0 = integer expression
// (all integer operators incl. shifts, %, bit operations), kind 1 = floating-point expression (+ - * /).
func NestedConst(rnd func(int) int, depth int) string {
	if rnd(3) == 0 {
		return nestedFloat(rnd, depth)
	}
	return nestedInt(rnd, depth)
}

func nestedInt(rnd func(int) int, depth int) string {
	leaves := []string{"1", "2", "3", "7", "5", "0", "127", "255", "256", "65535", "1000003", "'a'", "'\\n'", "0x7fffffff", "1 << 62", "cbig", "9223372036854775807", "18446744073709551615"}
	if depth <= 0 {
		return leaves[rnd(len(leaves))]
	}
	switch rnd(9) {
	case 0:
		return "-" + paren(nestedInt(rnd, depth-1))
	case 1:
		return "^" + paren(nestedInt(rnd, depth-1))
	case 2:
		return "+" + paren(nestedInt(rnd, depth-1))
	case 3:
		fs := []string{"min", "max"}
		return fs[rnd(2)] + "(" + nestedInt(rnd, depth-1) + ", " + nestedInt(rnd, depth-1) + ")"
	default:
		ops := []string{"+", "-", "*", "/", "%", "&", "|", "^", "&^", "<<", ">>", "+", "-", "*"}
		op := ops[rnd(len(ops))]
		r := nestedInt(rnd, depth-1)
		if op == "<<" || op == ">>" {
			r = fmt.Sprint(rnd(70))
		}
		return paren(nestedInt(rnd, depth-1)) + " " + op + " " + paren(r)
	}
}

func nestedFloat(rnd func(int) int, depth int) string {
	leaves := []string{"1", "2", "0.5", "2.5", "1.0", "1e3", "0.1", "3", "1e-3", "cflt", "16777217.0", "7"}
	if depth <= 0 {
		return leaves[rnd(len(leaves))]
	}
	switch rnd(6) {
	case 0:
		return "-" + paren(nestedFloat(rnd, depth-1))
	default:
		ops := []string{"+", "-", "*", "/"}
		return paren(nestedFloat(rnd, depth-1)) + " " + ops[rnd(len(ops))] + " " + paren(nestedFloat(rnd, depth-1))
	}
}

func paren(s string) string {
	if strings.ContainsAny(s, " -+^") {
		return "(" + s + ")"
	}
	return s
}

// Program renders an atom into a complete source file.
func (a Atom) Program() string {
	var sb strings.Builder
	sb.WriteString(AtomEnv)
	if a.Decl != "" {
		sb.WriteString(a.Decl)
		sb.WriteString("\n")
	}
	sb.WriteString("\nfunc atom() " + a.Ret + " {\n\t")
	sb.WriteString(a.Stmt)
	sb.WriteString("\n}\n")
	return sb.String()
}
