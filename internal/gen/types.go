// Package gen holds the workload generators (DESIGN.md E3). Everything is a pure function of a *h.Rand.
package gen

import (
	"fmt"
	"strconv"
	"strings"

	"github.com/goplus/gogen/verif/internal/h"
)

// Fixture packages with equal base names (C09/C13) — registered in a ref.Universe by the checks.
const (
	FxA = "fx/a/util"
	FxB = "fx/b/util"
)

var FxASrc = `package util

type T struct{ X int; Y string }
type N int
type S []N
type I interface{ IA() }
type G[T any] struct{ V T }
type P[K comparable, V any] map[K]V
type A = []T
type F func(N) T
func (T) IA() {}
func (*T) PA() int { return 0 }
var V N
const C N = 7
func Fn(x N) T { return T{} }
`

var FxBSrc = `package util

type T struct{ Z float64 }
type N uint8
type S map[string]N
type I interface{ IB() string }
type G[T any] []T
type P[K comparable, V any] struct{ Key K; Val V }
type A = *T
type F func(...N) (T, error)
func (T) IB() string { return "" }
var V N
const C N = 9
func Fn(x N) T { return T{} }
`

// TypePrelude declares the local named types the type algebra draws from.
const TypePrelude = `
type MyInt int
type MyU8 uint8
type MyStr string
type MyF float64
type MyBool bool
type MyCx complex128
type MySlice []int
type MyArr [3]string
type MyMap map[string]int
type MyChan chan int
type MyFunc func(int) string
type MyPtr *int
type MyStruct struct {
	A int
	B string
}
type MyIface interface{ M() int }
type MyEmpty interface{}
type AliasInt = int
type AliasStruct = MyStruct
type AliasSlice = []MyInt
type G1[T any] struct{ V T }
type G2[K comparable, V any] map[K]V
type Rec struct {
	Next *Rec
	Kids []Rec
}
`

var basics = []string{"bool", "int", "int8", "int16", "int32", "int64", "uint", "uint8", "uint16", "uint32", "uint64", "uintptr",
	"float32", "float64", "complex64", "complex128", "string", "byte", "rune", "error", "any"}

var localNamed = []string{"MyInt", "MyU8", "MyStr", "MyF", "MyBool", "MyCx", "MySlice", "MyArr", "MyMap", "MyChan", "MyFunc", "MyPtr", "MyStruct",
	"MyIface", "MyEmpty", "AliasInt", "AliasStruct", "AliasSlice", "Rec"}

var importedNamed = []string{"autil.T", "autil.N", "autil.S", "autil.I", "autil.A", "autil.F", "butil.T", "butil.N", "butil.S", "butil.I", "butil.A", "butil.F",
	"unsafe.Pointer", "strings.Builder", "time.Duration", "io.Reader"}

var comparableLeaf = []string{"bool", "int", "int8", "uint16", "uint64", "uintptr", "float32", "float64", "complex128", "string", "byte", "rune", "error", "any",
	"MyInt", "MyStr", "MyBool", "MyArr", "MyChan", "MyPtr", "MyStruct", "MyIface", "AliasInt", "autil.N", "butil.N", "autil.T", "unsafe.Pointer", "time.Duration"}

// embeddable type names with the field name they produce
var embeddable = [][2]string{{"MyInt", "MyInt"}, {"MyStruct", "MyStruct"}, {"MyIface", "MyIface"}, {"Rec", "Rec"}, {"autil.T", "T"}, {"butil.T", "T"},
	{"autil.N", "N"}, {"MySlice", "MySlice"}, {"AliasStruct", "AliasStruct"}, {"error", "error"}, {"G1[int]", "G1"}, {"strings.Builder", "Builder"}, {"autil.G[string]", "G"}}

var embeddableStar = map[string]bool{"MyInt": true, "MyStruct": true, "Rec": true, "autil.T": true, "butil.T": true, "autil.N": true, "MySlice": true,
	"AliasStruct": true, "G1[int]": true, "strings.Builder": true, "autil.G[string]": true}

var embedIfaces = [][2]string{{"MyIface", "M"}, {"autil.I", "IA"}, {"butil.I", "IB"}, {"error", "Error"}, {"fmt.Stringer", "String"}, {"io.Reader", "Read"}}

// TypeImports is the import block matching the names used by the type algebra.
const TypeImports = `import (
	"fmt"
	"io"
	"strings"
	"time"
	"unsafe"
	autil "fx/a/util"
	butil "fx/b/util"
)
`

// TypeUses keeps every import used.
const TypeUses = `
var _ fmt.Stringer
var _ io.Reader
var _ strings.Builder
var _ time.Duration
var _ unsafe.Pointer
var _ autil.T
var _ butil.T
`

var tagPool = []string{"", "", "json:\"a\"", "x:\"y\" z:\"w\"", "back`tick", "quote\"d", "line\nbreak", "tab\there", "uni✓code", "\\slash", "`", "a b"}

type TypeGen struct {
	R       *h.Rand
	TParams []string // type parameter names in scope (usable as leaves)
	NoIface bool
}

func (g *TypeGen) leaf() string {
	switch g.R.Intn(10) {
	case 0, 1, 2, 3:
		return h.Pick(g.R, basics)
	case 4, 5, 6:
		return h.Pick(g.R, localNamed)
	case 7:
		if len(g.TParams) > 0 {
			return h.Pick(g.R, g.TParams)
		}
		return h.Pick(g.R, basics)
	default:
		return h.Pick(g.R, importedNamed)
	}
}

// Comparable returns a type usable as a map key.
func (g *TypeGen) Comparable(d int) string {
	if d <= 0 {
		return h.Pick(g.R, comparableLeaf)
	}
	switch g.R.Intn(8) {
	case 0:
		return "*" + g.Type(d-1)
	case 1:
		return g.chanOf(g.Type(d - 1))
	case 2:
		return "[" + strconv.Itoa(g.R.Intn(4)) + "]" + g.Comparable(d-1)
	case 3:
		n := g.R.Intn(3)
		var fs []string
		for i := 0; i < n; i++ {
			fs = append(fs, fmt.Sprintf("K%d %s", i, g.Comparable(d-1)))
		}
		return "struct{" + strings.Join(fs, "; ") + "}"
	case 4:
		return "interface{ KM" + strconv.Itoa(g.R.Intn(3)) + "() " + g.Type(d-1) + " }"
	default:
		return h.Pick(g.R, comparableLeaf)
	}
}

func (g *TypeGen) chanOf(elem string) string {
	switch g.R.Intn(3) {
	case 0:
		if strings.HasPrefix(elem, "<-") {
			return "chan (" + elem + ")"
		}
		return "chan " + elem
	case 1:
		if strings.HasPrefix(elem, "<-") {
			return "chan<- (" + elem + ")"
		}
		return "chan<- " + elem
	}
	return "<-chan " + elem
}

func (g *TypeGen) arrayLen() string {
	return h.Pick(g.R, []string{"0", "1", "2", "3", "7", "100", "65536", "1 << 20"})
}

// Type returns a random type expression of nesting depth <= d.
func (g *TypeGen) Type(d int) string {
	if d <= 0 {
		return g.leaf()
	}
	switch g.R.Intn(13) {
	case 0:
		return g.leaf()
	case 1:
		return "*" + g.Type(d-1)
	case 2:
		return "[]" + g.Type(d-1)
	case 3:
		return "[" + g.arrayLen() + "]" + g.Type(d-1)
	case 4:
		return "map[" + g.Comparable(d-1) + "]" + g.Type(d-1)
	case 5:
		return g.chanOf(g.Type(d - 1))
	case 6, 7:
		return g.Func(d)
	case 8, 9:
		return g.Struct(d)
	case 10:
		if g.NoIface {
			return "[]" + g.Type(d-1)
		}
		return g.Iface(d)
	case 11:
		switch g.R.Intn(5) {
		case 0:
			return "G1[" + g.Type(d-1) + "]"
		case 1:
			return "G2[" + g.Comparable(d-1) + ", " + g.Type(d-1) + "]"
		case 2:
			return "autil.G[" + g.Type(d-1) + "]"
		case 3:
			return "butil.G[" + g.Type(d-1) + "]"
		default:
			return "butil.P[" + g.Comparable(d-1) + ", " + g.Type(d-1) + "]"
		}
	default:
		return "*" + g.Struct(d)
	}
}

// Func returns a function type; parameters are uniformly named or uniformly unnamed, as Go source requires.
func (g *TypeGen) Func(d int) string {
	np := g.R.Intn(4)
	named := g.R.Bool()
	var ps []string
	for i := 0; i < np; i++ {
		t := g.Type(d - 1)
		if i == np-1 && g.R.Chance(30) {
			t = "..." + t
		}
		if named {
			nm := fmt.Sprintf("p%d", i)
			if g.R.Chance(15) {
				nm = "_"
			}
			ps = append(ps, nm+" "+t)
		} else {
			ps = append(ps, t)
		}
	}
	s := "func(" + strings.Join(ps, ", ") + ")"
	nr := g.R.Intn(3)
	if nr == 1 && g.R.Bool() {
		return s + " " + g.parenIfFunc(g.Type(d-1))
	}
	if nr > 0 {
		rnamed := g.R.Chance(30)
		var rs []string
		for i := 0; i < nr; i++ {
			if rnamed {
				rs = append(rs, fmt.Sprintf("r%d %s", i, g.Type(d-1)))
			} else {
				rs = append(rs, g.Type(d-1))
			}
		}
		s += " (" + strings.Join(rs, ", ") + ")"
	}
	return s
}

func (g *TypeGen) parenIfFunc(t string) string { return t }

func (g *TypeGen) Struct(d int) string {
	n := g.R.Intn(4)
	used := map[string]bool{}
	var fs []string
	for i := 0; i < n; i++ {
		var f string
		if g.R.Chance(30) {
			e := h.Pick(g.R, embeddable)
			if used[e[1]] {
				continue
			}
			used[e[1]] = true
			f = e[0]
			if embeddableStar[e[0]] && g.R.Chance(40) {
				f = "*" + f
			}
		} else {
			nm := fmt.Sprintf("F%d", i)
			if g.R.Chance(20) {
				nm = fmt.Sprintf("f%d", i)
			}
			if g.R.Chance(8) {
				nm = "_"
			}
			if used[nm] && nm != "_" {
				continue
			}
			used[nm] = true
			f = nm + " " + g.Type(d-1)
		}
		if tag := h.Pick(g.R, tagPool); tag != "" {
			if strings.Contains(tag, "`") {
				f += " " + strconv.Quote(tag)
			} else if g.R.Bool() && !strings.ContainsAny(tag, "\n") {
				f += " `" + tag + "`"
			} else {
				f += " " + strconv.Quote(tag)
			}
		}
		fs = append(fs, f)
	}
	return "struct{" + strings.Join(fs, "; ") + "}"
}

func (g *TypeGen) Iface(d int) string {
	n := g.R.Intn(4)
	used := map[string]bool{}
	var ms []string
	for i := 0; i < n; i++ {
		if g.R.Chance(35) {
			e := h.Pick(g.R, embedIfaces)
			if used[e[1]] {
				continue
			}
			used[e[1]] = true
			ms = append(ms, e[0])
			continue
		}
		nm := fmt.Sprintf("X%d", g.R.Intn(5))
		if g.R.Chance(20) {
			nm = fmt.Sprintf("x%d", g.R.Intn(3))
		}
		if used[nm] {
			continue
		}
		used[nm] = true
		ms = append(ms, nm+strings.TrimPrefix(g.Func(d), "func"))
	}
	if g.R.Chance(10) {
		ms = append(ms, "comparable_placeholder")
		ms = ms[:len(ms)-1]
	}
	return "interface{" + strings.Join(ms, "; ") + "}"
}

// Constraint returns a constraint interface literal (unions, ~T, methods, comparable).
func (g *TypeGen) Constraint() string {
	terms := []string{"int", "~int", "string", "~string", "float64", "~float64", "MyInt", "~uint8", "[]byte", "~[]int", "bool", "*int", "autil.N", "~int64", "complex128"}
	n := 1 + g.R.Intn(4)
	p := g.R.Perm(len(terms))
	var ts []string
	seenBase := map[string]bool{}
	for _, i := range p {
		base := strings.TrimPrefix(terms[i], "~")
		if seenBase[base] || (base == "MyInt" && seenBase["int"] && false) {
			continue
		}
		// overlapping terms are rejected by Go: ~int overlaps MyInt, autil.N
		if base == "int" && (seenBase["MyInt"] || seenBase["autil.N"]) {
			continue
		}
		if (base == "MyInt" || base == "autil.N") && seenBase["int"] {
			continue
		}
		seenBase[base] = true
		ts = append(ts, terms[i])
		if len(ts) == n {
			break
		}
	}
	s := strings.Join(ts, " | ")
	switch g.R.Intn(4) {
	case 0:
		return "interface{ " + s + " }"
	case 1:
		return "interface{ " + s + "; comparable }"
	case 2:
		return "interface{ " + s + "; String() string }"
	}
	return "interface{ " + s + " }"
}
