package gen

import (
	"fmt"
	"go/ast"
	"go/token"
	"strconv"

	"github.com/goplus/gogen/verif/internal/h"
)

// Random syntax trees without position information and without ParenExpr (C12): the shape the builder holds.
// Emphasis: operator precedence/associativity pairs, unary chains, channel-type nesting, composite and function
// literals in statement headers, type parameter lists, struct tags, labeled and empty statements.

type ASTGen struct {
	R *h.Rand
	n int
}

func id(s string) *ast.Ident { return &ast.Ident{Name: s} }

var binToks = []token.Token{token.ADD, token.SUB, token.MUL, token.QUO, token.REM, token.AND, token.OR, token.XOR, token.SHL, token.SHR, token.AND_NOT,
	token.LAND, token.LOR, token.EQL, token.LSS, token.GTR, token.NEQ, token.LEQ, token.GEQ}
var unToks = []token.Token{token.ADD, token.SUB, token.NOT, token.XOR, token.MUL, token.AND, token.ARROW}

func (g *ASTGen) name() string {
	return h.Pick(g.R, []string{"a", "b", "c", "x", "y", "f", "g", "p", "s", "m", "ch", "T", "pkg"})
}

func (g *ASTGen) lit() ast.Expr {
	switch g.R.Intn(6) {
	case 0:
		return &ast.BasicLit{Kind: token.INT, Value: strconv.Itoa(g.R.Intn(100))}
	case 1:
		return &ast.BasicLit{Kind: token.STRING, Value: h.Pick(g.R, []string{`"s"`, "`raw`", `"a\tb"`, `""`})}
	case 2:
		return &ast.BasicLit{Kind: token.FLOAT, Value: h.Pick(g.R, []string{"1.5", "2e10", ".5", "0x1p-2"})}
	case 3:
		return &ast.BasicLit{Kind: token.CHAR, Value: h.Pick(g.R, []string{"'a'", `'\n'`, `'\''`})}
	case 4:
		return &ast.BasicLit{Kind: token.IMAG, Value: "2i"}
	}
	return id(g.name())
}

func (g *ASTGen) Type(d int) ast.Expr {
	if d <= 0 {
		return h.Pick(g.R, []ast.Expr{id("int"), id("string"), id("T"), &ast.SelectorExpr{X: id("pkg"), Sel: id("Type")}, id("error"), id("any")})
	}
	switch g.R.Intn(12) {
	case 0:
		return &ast.StarExpr{X: g.Type(d - 1)}
	case 1:
		return &ast.ArrayType{Elt: g.Type(d - 1)}
	case 2:
		return &ast.ArrayType{Len: &ast.BasicLit{Kind: token.INT, Value: "3"}, Elt: g.Type(d - 1)}
	case 3:
		return &ast.MapType{Key: g.Type(d - 1), Value: g.Type(d - 1)}
	case 4, 5:
		return &ast.ChanType{Dir: h.Pick(g.R, []ast.ChanDir{ast.SEND, ast.RECV, ast.SEND | ast.RECV}), Value: g.Type(d - 1)}
	case 6:
		return g.FuncType(d - 1)
	case 7:
		var fs []*ast.Field
		for i := 0; i < g.R.Intn(3); i++ {
			f := &ast.Field{Names: []*ast.Ident{id(fmt.Sprintf("F%d", i))}, Type: g.Type(d - 1)}
			if g.R.Chance(40) {
				f.Tag = &ast.BasicLit{Kind: token.STRING, Value: h.Pick(g.R, []string{"`json:\"a\"`", `"x:\"y\""`, "`a b`"})}
			}
			if g.R.Chance(25) {
				f.Names = append(f.Names, id(fmt.Sprintf("G%d", i)))
			}
			fs = append(fs, f)
		}
		if g.R.Chance(30) {
			fs = append(fs, &ast.Field{Type: h.Pick(g.R, []ast.Expr{id("T"), &ast.StarExpr{X: id("T")}, &ast.SelectorExpr{X: id("pkg"), Sel: id("Type")}})})
		}
		return &ast.StructType{Fields: &ast.FieldList{List: fs}}
	case 8:
		var ms []*ast.Field
		for i := 0; i < g.R.Intn(3); i++ {
			ms = append(ms, &ast.Field{Names: []*ast.Ident{id(fmt.Sprintf("M%d", i))}, Type: g.FuncType(d - 1)})
		}
		if g.R.Chance(30) {
			ms = append(ms, &ast.Field{Type: id("error")})
		}
		if g.R.Chance(25) {
			ms = append(ms, &ast.Field{Type: &ast.BinaryExpr{X: &ast.UnaryExpr{Op: token.TILDE, X: id("int")}, Op: token.OR, Y: id("string")}})
		}
		return &ast.InterfaceType{Methods: &ast.FieldList{List: ms}}
	case 9:
		return &ast.IndexExpr{X: id("G"), Index: g.Type(d - 1)}
	case 10:
		return &ast.IndexListExpr{X: &ast.SelectorExpr{X: id("pkg"), Sel: id("G2")}, Indices: []ast.Expr{g.Type(d - 1), g.Type(d - 1)}}
	}
	return g.Type(0)
}

func (g *ASTGen) FuncType(d int) *ast.FuncType {
	ft := &ast.FuncType{Params: &ast.FieldList{}}
	named := g.R.Bool()
	np := g.R.Intn(3)
	for i := 0; i < np; i++ {
		f := &ast.Field{Type: g.Type(d)}
		if i == np-1 && g.R.Chance(30) {
			f.Type = &ast.Ellipsis{Elt: f.Type}
		}
		if named {
			f.Names = []*ast.Ident{id(fmt.Sprintf("p%d", i))}
		}
		ft.Params.List = append(ft.Params.List, f)
	}
	switch g.R.Intn(4) {
	case 0:
		ft.Results = &ast.FieldList{List: []*ast.Field{{Type: g.Type(d)}}}
	case 1:
		ft.Results = &ast.FieldList{List: []*ast.Field{{Type: g.Type(d)}, {Type: id("error")}}}
	case 2:
		ft.Results = &ast.FieldList{List: []*ast.Field{{Names: []*ast.Ident{id("r")}, Type: g.Type(d)}}}
	}
	return ft
}

// Expr returns a random expression tree of depth <= d (no ParenExpr anywhere).
func (g *ASTGen) Expr(d int) ast.Expr { return g.expr(d, true) }

// operand returns an expression used as an operand of an operator/selector/index: multi-line function literals are
// not generated there (the fork indents their bodies differently from go/format inside multi-line expression lists —
// recorded finding, see fixtures/c12).
func (g *ASTGen) operand(d int) ast.Expr { return g.expr(d, false) }

func (g *ASTGen) expr(d int, funcLitOK bool) ast.Expr {
	if d <= 0 {
		return g.lit()
	}
	switch g.R.Intn(20) {
	case 0, 1, 2, 3, 4, 5:
		return &ast.BinaryExpr{X: g.operand(d - 1), Op: h.Pick(g.R, binToks), Y: g.operand(d - 1)}
	case 6, 7, 8:
		return &ast.UnaryExpr{Op: h.Pick(g.R, unToks), X: g.operand(d - 1)}
	case 9:
		return &ast.StarExpr{X: g.operand(d - 1)}
	case 10:
		return &ast.SelectorExpr{X: g.operand(d - 1), Sel: id(h.Pick(g.R, []string{"A", "b", "Method"}))}
	case 11:
		return &ast.IndexExpr{X: g.operand(d - 1), Index: g.operand(d - 1)}
	case 12:
		s := &ast.SliceExpr{X: g.operand(d - 1)}
		if g.R.Bool() {
			s.Low = g.operand(d - 1)
		}
		if g.R.Bool() {
			s.High = g.operand(d - 1)
		}
		if s.High != nil && g.R.Chance(30) {
			s.Max, s.Slice3 = g.operand(d-1), true
		}
		return s
	case 13:
		c := &ast.CallExpr{Fun: g.operand(d - 1)}
		for i := 0; i < g.R.Intn(3); i++ {
			c.Args = append(c.Args, g.Expr(d-1))
		}
		if len(c.Args) > 0 && g.R.Chance(20) {
			c.Ellipsis = 1
		}
		return c
	case 14:
		return &ast.TypeAssertExpr{X: g.operand(d - 1), Type: g.Type(1)}
	case 15:
		cl := &ast.CompositeLit{Type: g.Type(1)}
		for i := 0; i < g.R.Intn(3); i++ {
			if g.R.Chance(40) {
				cl.Elts = append(cl.Elts, &ast.KeyValueExpr{Key: g.lit(), Value: g.Expr(d - 1)})
			} else {
				cl.Elts = append(cl.Elts, g.Expr(d-1))
			}
		}
		return cl
	case 16:
		if !funcLitOK {
			return g.lit()
		}
		// signature types of function literals are kept on one line: multi-line struct/interface types there hit a
		// recorded formatting finding (fixtures/c12/funclit_multiline_result_in_return.go)
		return &ast.FuncLit{Type: g.FuncType(0), Body: g.Block(d-1, 2)}
	case 17:
		return &ast.CallExpr{Fun: g.convType(), Args: []ast.Expr{g.Expr(d - 1)}}
	case 18:
		return &ast.IndexExpr{X: id("gf"), Index: g.Type(1)}
	}
	return g.lit()
}

// convType returns a type expression in conversion position (needs parentheses for *T, <-chan T, func types — the
// tree holds none; a correct printer adds them).
func (g *ASTGen) convType() ast.Expr {
	return h.Pick(g.R, []ast.Expr{id("int"), &ast.ArrayType{Elt: id("byte")}, &ast.StarExpr{X: id("T")}, &ast.ChanType{Dir: ast.RECV, Value: id("int")},
		&ast.FuncType{Params: &ast.FieldList{}}, &ast.FuncType{Params: &ast.FieldList{}, Results: &ast.FieldList{List: []*ast.Field{{Type: id("int")}}}},
		&ast.InterfaceType{Methods: &ast.FieldList{}}, &ast.ChanType{Dir: ast.SEND | ast.RECV, Value: id("int")}, &ast.MapType{Key: id("string"), Value: id("int")}})
}

func (g *ASTGen) Block(d, n int) *ast.BlockStmt {
	b := &ast.BlockStmt{}
	for i := 0; i < g.R.Intn(n+1); i++ {
		b.List = append(b.List, g.Stmt(d))
	}
	return b
}

func (g *ASTGen) simple(d int) ast.Stmt {
	switch g.R.Intn(6) {
	case 0:
		return &ast.ExprStmt{X: &ast.CallExpr{Fun: g.Expr(d)}}
	case 1:
		return &ast.AssignStmt{Lhs: []ast.Expr{id(g.name())}, Tok: h.Pick(g.R, []token.Token{token.ASSIGN, token.DEFINE, token.ADD_ASSIGN, token.SHL_ASSIGN, token.AND_NOT_ASSIGN}), Rhs: []ast.Expr{g.Expr(d)}}
	case 2:
		return &ast.IncDecStmt{X: g.Expr(d), Tok: h.Pick(g.R, []token.Token{token.INC, token.DEC})}
	case 3:
		return &ast.SendStmt{Chan: g.Expr(d), Value: g.Expr(d)}
	case 4:
		return &ast.AssignStmt{Lhs: []ast.Expr{id("a"), id("b")}, Tok: token.ASSIGN, Rhs: []ast.Expr{g.Expr(d), g.Expr(d)}}
	}
	return &ast.ExprStmt{X: &ast.UnaryExpr{Op: token.ARROW, X: g.Expr(d)}}
}

func (g *ASTGen) Stmt(d int) ast.Stmt {
	if d <= 0 {
		return g.simple(0)
	}
	switch g.R.Intn(18) {
	case 0, 1, 2:
		return g.simple(d)
	case 3:
		s := &ast.IfStmt{Cond: g.Expr(d), Body: g.Block(d-1, 2)}
		if g.R.Chance(30) {
			s.Init = g.simple(d - 1)
		}
		switch g.R.Intn(3) {
		case 0:
			s.Else = g.Block(d-1, 2)
		case 1:
			s.Else = &ast.IfStmt{Cond: g.Expr(d - 1), Body: g.Block(d-1, 1)}
		}
		return s
	case 4:
		s := &ast.ForStmt{Body: g.Block(d-1, 2)}
		if g.R.Bool() {
			s.Cond = g.Expr(d)
		}
		if g.R.Chance(30) {
			s.Init, s.Post = g.simple(d-1), g.simple(d-1)
		}
		return s
	case 5:
		s := &ast.RangeStmt{X: g.Expr(d), Body: g.Block(d-1, 2)}
		switch g.R.Intn(3) {
		case 0:
			s.Key, s.Tok = id("k"), token.DEFINE
		case 1:
			s.Key, s.Value, s.Tok = id("k"), id("v"), h.Pick(g.R, []token.Token{token.DEFINE, token.ASSIGN})
		}
		return s
	case 6:
		s := &ast.SwitchStmt{Body: &ast.BlockStmt{}}
		if g.R.Bool() {
			s.Tag = g.Expr(d)
		}
		if g.R.Chance(25) {
			s.Init = g.simple(d - 1)
		}
		for i := 0; i < g.R.Intn(3); i++ {
			cc := &ast.CaseClause{Body: g.Block(d-1, 2).List}
			if i > 0 || g.R.Bool() {
				cc.List = []ast.Expr{g.Expr(d - 1)}
				if g.R.Chance(30) {
					cc.List = append(cc.List, g.Expr(d-1))
				}
			}
			s.Body.List = append(s.Body.List, cc)
		}
		return s
	case 7:
		var assign ast.Stmt = &ast.ExprStmt{X: &ast.TypeAssertExpr{X: g.Expr(d - 1)}}
		if g.R.Bool() {
			assign = &ast.AssignStmt{Lhs: []ast.Expr{id("t")}, Tok: token.DEFINE, Rhs: []ast.Expr{&ast.TypeAssertExpr{X: g.Expr(d - 1)}}}
		}
		s := &ast.TypeSwitchStmt{Assign: assign, Body: &ast.BlockStmt{}}
		for i := 0; i < 1+g.R.Intn(2); i++ {
			s.Body.List = append(s.Body.List, &ast.CaseClause{List: []ast.Expr{g.Type(1)}, Body: g.Block(d-1, 1).List})
		}
		if g.R.Bool() {
			s.Body.List = append(s.Body.List, &ast.CaseClause{Body: g.Block(d-1, 1).List})
		}
		return s
	case 8:
		s := &ast.SelectStmt{Body: &ast.BlockStmt{}}
		for i := 0; i < g.R.Intn(3); i++ {
			var comm ast.Stmt
			switch g.R.Intn(3) {
			case 0:
				comm = &ast.SendStmt{Chan: id("ch"), Value: g.Expr(d - 1)}
			case 1:
				comm = &ast.ExprStmt{X: &ast.UnaryExpr{Op: token.ARROW, X: g.Expr(d - 1)}}
			default:
				comm = &ast.AssignStmt{Lhs: []ast.Expr{id("v"), id("ok")}, Tok: token.DEFINE, Rhs: []ast.Expr{&ast.UnaryExpr{Op: token.ARROW, X: id("ch")}}}
			}
			s.Body.List = append(s.Body.List, &ast.CommClause{Comm: comm, Body: g.Block(d-1, 1).List})
		}
		if g.R.Bool() {
			s.Body.List = append(s.Body.List, &ast.CommClause{Body: g.Block(d-1, 1).List})
		}
		return s
	case 9:
		g.n++
		inner := g.Stmt(d - 1)
		if g.R.Chance(20) {
			inner = &ast.EmptyStmt{}
		}
		return &ast.LabeledStmt{Label: id(fmt.Sprintf("L%d", g.n)), Stmt: inner}
	case 10:
		return &ast.BranchStmt{Tok: h.Pick(g.R, []token.Token{token.BREAK, token.CONTINUE, token.GOTO, token.FALLTHROUGH})}
	case 11:
		return &ast.BranchStmt{Tok: h.Pick(g.R, []token.Token{token.BREAK, token.CONTINUE, token.GOTO}), Label: id("L1")}
	case 12:
		r := &ast.ReturnStmt{}
		for i := 0; i < g.R.Intn(3); i++ {
			r.Results = append(r.Results, g.Expr(d))
		}
		return r
	case 13:
		return h.Pick(g.R, []ast.Stmt{&ast.GoStmt{Call: &ast.CallExpr{Fun: g.Expr(d)}}, &ast.DeferStmt{Call: &ast.CallExpr{Fun: g.Expr(d)}}})
	case 14:
		return g.Block(d-1, 3)
	case 15:
		spec := &ast.ValueSpec{Names: []*ast.Ident{id("v")}}
		switch g.R.Intn(3) {
		case 0:
			spec.Type = g.Type(2)
		case 1:
			spec.Values = []ast.Expr{g.Expr(d)}
		default:
			spec.Type, spec.Values = g.Type(1), []ast.Expr{g.Expr(d)}
		}
		return &ast.DeclStmt{Decl: &ast.GenDecl{Tok: h.Pick(g.R, []token.Token{token.VAR, token.VAR, token.CONST}), Specs: []ast.Spec{spec}}}
	case 16:
		ts := &ast.TypeSpec{Name: id("Local"), Type: g.Type(2)}
		if g.R.Chance(30) {
			ts.Assign = 1
		} else if g.R.Chance(30) {
			ts.TypeParams = &ast.FieldList{List: []*ast.Field{{Names: []*ast.Ident{id("P")}, Type: h.Pick(g.R, []ast.Expr{id("any"), id("comparable"),
				&ast.BinaryExpr{X: &ast.UnaryExpr{Op: token.TILDE, X: id("int")}, Op: token.OR, Y: id("string")}, &ast.InterfaceType{Methods: &ast.FieldList{}}})}}}
		}
		return &ast.DeclStmt{Decl: &ast.GenDecl{Tok: token.TYPE, Specs: []ast.Spec{ts}}}
	}
	return g.simple(d)
}

// File returns a random file: a few declarations of every kind.
func (g *ASTGen) File(d int) *ast.File {
	f := &ast.File{Name: id("p")}
	f.Decls = append(f.Decls, &ast.GenDecl{Tok: token.IMPORT, Specs: []ast.Spec{
		&ast.ImportSpec{Path: &ast.BasicLit{Kind: token.STRING, Value: `"fmt"`}},
		&ast.ImportSpec{Name: id("pkg"), Path: &ast.BasicLit{Kind: token.STRING, Value: `"x/y"`}}}})
	for i := 0; i < 1+g.R.Intn(4); i++ {
		switch g.R.Intn(4) {
		case 0:
			f.Decls = append(f.Decls, &ast.GenDecl{Tok: token.VAR, Specs: []ast.Spec{&ast.ValueSpec{Names: []*ast.Ident{id(fmt.Sprintf("g%d", i))}, Type: g.Type(d), Values: nil}}})
		case 1:
			f.Decls = append(f.Decls, &ast.GenDecl{Tok: token.VAR, Specs: []ast.Spec{&ast.ValueSpec{Names: []*ast.Ident{id(fmt.Sprintf("g%d", i))}, Values: []ast.Expr{g.Expr(d)}}}})
		case 2:
			fd := &ast.FuncDecl{Name: id(fmt.Sprintf("f%d", i)), Type: g.FuncType(1), Body: g.Block(d, 4)}
			if g.R.Chance(30) {
				fd.Recv = &ast.FieldList{List: []*ast.Field{{Names: []*ast.Ident{id("r")}, Type: h.Pick(g.R, []ast.Expr{id("T"), &ast.StarExpr{X: id("T")}, &ast.StarExpr{X: &ast.IndexExpr{X: id("G"), Index: id("P")}}})}}}
			} else if g.R.Chance(30) {
				fd.Type.TypeParams = &ast.FieldList{List: []*ast.Field{{Names: []*ast.Ident{id("P"), id("Q")}, Type: id("any")}, {Names: []*ast.Ident{id("R")}, Type: &ast.UnaryExpr{Op: token.TILDE, X: &ast.ArrayType{Elt: id("P")}}}}}
			}
			f.Decls = append(f.Decls, fd)
		default:
			ts := &ast.TypeSpec{Name: id(fmt.Sprintf("T%d", i)), Type: g.Type(d)}
			if g.R.Chance(25) {
				ts.TypeParams = &ast.FieldList{List: []*ast.Field{{Names: []*ast.Ident{id("P")}, Type: h.Pick(g.R, []ast.Expr{id("any"), &ast.StarExpr{X: id("int")},
					&ast.BinaryExpr{X: &ast.StarExpr{X: id("int")}, Op: token.OR, Y: id("string")}})}}}
			}
			f.Decls = append(f.Decls, &ast.GenDecl{Tok: token.TYPE, Specs: []ast.Spec{ts}})
		}
	}
	return f
}
