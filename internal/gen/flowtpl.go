package gen

import (
	"fmt"
	"strings"
)

// FlowTemplates is a deterministic catalogue for C10: the last statement of a function with a result is an (optionally
// labeled) breakable statement; nested in it another breakable statement (or a plain block / if / closure) holding one
// jump; optionally a second use of the outer label. Whether the function needs a final return depends on exactly which
// statement each jump leaves - the part of the terminating-statement rules that random bodies reach only by luck.
func FlowTemplates() []string {
	outers := []struct{ open, close string }{
		{"L: for {", "}"},
		{"L: for i := 0; ; i++ {\n\t\t_ = i", "}"},
		{"for {", "}"},
		{"L: for x < 10 {", "}"},
		{"L: switch x {\n\tcase 1:", "\t\treturn 1\n\tdefault:\n\t\treturn 2\n\t}"},
		{"L: switch {\n\tdefault:", "\t\treturn 1\n\t}"},
		{"L: select {\n\tcase <-ch:", "\t\treturn 1\n\t}"},
		{"L: switch v.(type) {\n\tcase int:", "\t\treturn 1\n\tdefault:\n\t\tpanic(\"p\")\n\t}"},
		{"L: {", "\t\treturn 1\n\t}"},
	}
	inners := []string{"%s", "switch x {\n\t\tcase 2:\n\t\t\t%s\n\t\t}", "switch v.(type) {\n\t\tcase string:\n\t\t\t%s\n\t\t}", "select {\n\t\tcase <-ch:\n\t\t\t%s\n\t\tdefault:\n\t\t}",
		"for x < 3 {\n\t\t\t%s\n\t\t}", "for range ch {\n\t\t\t%s\n\t\t}", "if c {\n\t\t\t%s\n\t\t}", "{\n\t\t\t%s\n\t\t}", "if c {\n\t\t\tx++\n\t\t} else {\n\t\t\tswitch {\n\t\t\tcase c:\n\t\t\t\t%s\n\t\t\t}\n\t\t}",
		"M: for {\n\t\t\tselect {\n\t\t\tcase <-ch:\n\t\t\t\t%s\n\t\t\tdefault:\n\t\t\t\tbreak M\n\t\t\t}\n\t\t}"}
	jumps := []string{"break", "break L", "continue", "continue L", "goto L", "return 1", "panic(\"p\")", "x++"}
	uses := []string{"", "if x > 5 {\n\t\t\tcontinue L\n\t\t}", "if x > 5 {\n\t\t\tgoto L\n\t\t}", "if x > 5 {\n\t\t\tbreak L\n\t\t}"}
	var out []string
	for _, o := range outers {
		for _, in := range inners {
			for _, j := range jumps {
				for _, u := range uses {
					if !strings.HasPrefix(o.open, "L:") && (strings.Contains(j, " L") || u != "") {
						continue
					}
					var sb strings.Builder
					sb.WriteString("package p\n\nfunc f(c bool, ch chan int, v any) int {\n\tx := 0\n\t")
					sb.WriteString(o.open + "\n\t\t" + fmt.Sprintf(in, j) + "\n")
					if u != "" {
						sb.WriteString("\t\t" + u + "\n")
					}
					sb.WriteString("\t" + o.close + "\n}\n")
					out = append(out, sb.String())
				}
			}
		}
	}
	return out
}
