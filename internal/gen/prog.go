package gen

import (
	"fmt"
	"strings"

	"github.com/goplus/gogen/verif/internal/h"
)

// Typed program generator (DESIGN.md E3): grows a well-typed Go file by construction.
// The generator is never trusted: every program is classified by go/types before it is used.
//
// Layering rule: constructs with a recorded finding at the atom layer are not used as building blocks
// (all-constant operator applications other than literal arithmetic, constant boolean expressions, append on
// named slices, constant shifts of non-literals), so program-level runs explore composition and histories.

type Ty int

const (
	TInt Ty = iota
	TInt8
	TU8
	TI64
	TUint
	TF64
	TStr
	TBool
	TMyInt
	TRune
	TC128
	TSliceInt
	TSliceStr
	TMap
	TPtrInt
	TStruct
	TPtrStruct
	TErr
	TAny
	TFn
	TChan
	TArr
	TStringer
	nTy
)

var tyName = [...]string{"int", "int8", "uint8", "int64", "uint", "float64", "string", "bool", "MyInt", "rune", "complex128", "[]int", "[]string", "map[string]int",
	"*int", "MyStruct", "*MyStruct", "error", "any", "func(int) int", "chan int", "[3]int", "Stringer"}

func (t Ty) String() string { return tyName[t] }

func (t Ty) numeric() bool {
	switch t {
	case TInt, TInt8, TU8, TI64, TUint, TF64, TMyInt, TRune:
		return true
	}
	return false
}
func (t Ty) integer() bool { return t.numeric() && t != TF64 }

const ProgPrelude = `package main

import (
	"errors"
	"fmt"
	"strings"
)

type MyInt int

type MyStruct struct {
	A int
	B string
	C []int
}

type Stringer interface{ String() string }

type Base struct{ ID int }

type Outer struct {
	Base
	*MyStruct
	Name string
}

func (m MyInt) String() string      { return fmt.Sprint(int(m)) }
func (m MyInt) Twice() MyInt        { return m * 2 }
func (s MyStruct) Sum() int         { return s.A + len(s.B) }
func (s *MyStruct) SetA(v int)      { s.A = v }
func (s *MyStruct) String() string  { return s.B }
func (b Base) Ident() int           { return b.ID }
func (b *Base) Bump()               { b.ID++ }

var ErrBoom = errors.New("boom")

var (
	gInt   int = 3
	gStr       = "g"
	gSlice     = []int{1, 2, 3}
	gMap       = map[string]int{"a": 1}
	gSt        = MyStruct{A: 1, B: "b"}
	gOuter     = Outer{Name: "o"}
	gF64   float64
	gCh    = make(chan int, 4)
)

const (
	KA = iota + 1
	KB
	KC
	KStr       = "k"
	KF         = 2.5
	KT   int8  = 5
)

func two() (int, error)            { return 1, nil }
func pair(a int, s string) (string, int) { return s, a }
func vari(xs ...int) int           { return len(xs) }
func apply(f func(int) int, v int) int { return f(v) }
func upper(s string) string        { return strings.ToUpper(s) }
func mkerr(s string) error         { return errors.New(s) }
func gmax[T int | float64 | string](a, b T) T {
	if a > b {
		return a
	}
	return b
}
func gmap[T, U any](xs []T, f func(T) U) []U {
	var out []U
	for _, x := range xs {
		out = append(out, f(x))
	}
	return out
}
`

type pvar struct {
	name string
	ty   Ty
	ro   bool // not assignable (range/const)
}

type ProgGen struct {
	R        *h.Rand
	sb       strings.Builder
	scopes   [][]pvar
	nvar     int
	nlabel   int
	depth    int
	MaxDepth int
	results  []Ty
	funcs    []pfunc
	loops    int      // enclosing loops
	labels   []string // enclosing labeled loops
	inSwitch int
	stmts    int
	MaxStmts int
	hdr      int    // > 0 while emitting a statement header
	FaultAt  int    // statement ordinal (1-based, counted over the whole program) replaced by Fault; 0 = none
	Fault    string // deliberately ill-typed statement
	total    int
	Injected bool
}

type pfunc struct {
	name    string
	params  []Ty
	results []Ty
}

func (g *ProgGen) w(format string, args ...any) {
	g.sb.WriteString(strings.Repeat("\t", g.depth+1))
	fmt.Fprintf(&g.sb, format, args...)
	g.sb.WriteString("\n")
}

func (g *ProgGen) push() { g.scopes = append(g.scopes, nil) }
func (g *ProgGen) pop()  { g.scopes = g.scopes[:len(g.scopes)-1] }
func (g *ProgGen) declare(ty Ty, ro bool) string {
	g.nvar++
	name := fmt.Sprintf("v%d", g.nvar)
	g.scopes[len(g.scopes)-1] = append(g.scopes[len(g.scopes)-1], pvar{name, ty, ro})
	return name
}

func (g *ProgGen) varsOf(ty Ty, assignable bool) []string {
	var out []string
	for _, sc := range g.scopes {
		for _, v := range sc {
			if v.ty == ty && (!assignable || !v.ro) {
				out = append(out, v.name)
			}
		}
	}
	return out
}

var globalsOf = map[Ty][]string{TInt: {"gInt"}, TStr: {"gStr"}, TSliceInt: {"gSlice"}, TMap: {"gMap"}, TStruct: {"gSt"}, TF64: {"gF64"}, TChan: {"gCh"}}

// pickS picks one option; inside statement headers options that contain a composite literal of a named struct type
// are not eligible (the builder prints them without the parentheses Go's grammar needs there — recorded finding).
func (g *ProgGen) pickS(opts []string) string {
	if g.hdr > 0 {
		var ok []string
		for _, o := range opts {
			if !strings.Contains(o, "MyStruct{") && !strings.Contains(o, "Outer{") {
				ok = append(ok, o)
			}
		}
		if len(ok) > 0 {
			opts = ok
		} else {
			return "gSt"
		}
	}
	return h.Pick(g.R, opts)
}

func (g *ProgGen) anyTy() Ty { return Ty(g.R.Intn(int(nTy))) }

func (g *ProgGen) valTy() Ty { // types convenient for locals
	return h.Pick(g.R, []Ty{TInt, TInt, TInt, TStr, TStr, TBool, TF64, TInt8, TU8, TI64, TUint, TMyInt, TRune, TSliceInt, TSliceStr, TMap, TPtrInt, TStruct, TPtrStruct, TErr, TAny, TFn, TArr, TC128, TStringer, TChan})
}

// nonConst returns an expression of type ty that is certainly not a constant.
func (g *ProgGen) nonConst(ty Ty, d int) string {
	e := g.nonConst0(ty, d)
	if strings.ContainsAny(e, " ") && !strings.HasPrefix(e, "func") && !strings.HasSuffix(e, ")") && !strings.HasSuffix(e, "}") && !strings.HasSuffix(e, "]") {
		return "(" + e + ")"
	}
	if strings.HasPrefix(e, "&") || strings.HasPrefix(e, "*") {
		return "(" + e + ")"
	}
	return e
}

func (g *ProgGen) nonConst0(ty Ty, d int) string {
	if vs := g.varsOf(ty, false); len(vs) > 0 && g.R.Chance(70) {
		return h.Pick(g.R, vs)
	}
	if gs := globalsOf[ty]; len(gs) > 0 && g.R.Chance(60) {
		return h.Pick(g.R, gs)
	}
	switch ty {
	case TInt:
		return g.pickS([]string{"len(gSlice)", "gSt.A", "gMap[gStr]", "vari(1, 2)", "gSt.Sum()", "gOuter.ID", "gOuter.Ident()", "cap(gSlice)", "gSlice[0]", "len(gStr)"})
	case TStr:
		return g.pickS([]string{"gSt.B", "upper(gStr)", "gOuter.Name", "fmt.Sprint(gInt)", "MyInt(gInt).String()", "gStr[1:]", "strings.Repeat(gStr, 2)"})
	case TBool:
		return g.pickS([]string{"gInt > 2", "gStr == KStr", "len(gSlice) != 0", "gSt.A <= gInt", "gMap != nil", "strings.HasPrefix(gStr, KStr)"})
	case TF64:
		return "float64(gInt)"
	case TInt8:
		return "int8(gInt)"
	case TU8:
		return "uint8(gInt)"
	case TI64:
		return "int64(gInt)"
	case TUint:
		return "uint(gInt)"
	case TMyInt:
		return g.pickS([]string{"MyInt(gInt)", "MyInt(gInt).Twice()"})
	case TRune:
		return "rune(gStr[0])"
	case TC128:
		return "complex(gF64, 1)"
	case TSliceInt:
		return g.pickS([]string{"gSlice[1:]", "gSt.C", "append(gSlice, gInt)", "make([]int, gInt)"})
	case TSliceStr:
		return g.pickS([]string{"strings.Fields(gStr)", "[]string{gStr}", "strings.Split(gStr, KStr)"})
	case TMap:
		return "gMap"
	case TPtrInt:
		return g.pickS([]string{"&gInt", "&gSt.A", "new(int)", "&gSlice[0]"})
	case TStruct:
		return g.pickS([]string{"gSt", "*gOuter.MyStruct", "MyStruct{A: gInt}"})
	case TPtrStruct:
		return g.pickS([]string{"&gSt", "gOuter.MyStruct", "&MyStruct{B: gStr}", "new(MyStruct)"})
	case TErr:
		return g.pickS([]string{"mkerr(gStr)", "ErrBoom", "fmt.Errorf(\"e%d\", gInt)"})
	case TAny:
		return g.pickS([]string{"any(gInt)", "any(gStr)", "any(gSt)", "any(&gSt)", "any(ErrBoom)"})
	case TFn:
		return g.pickS([]string{"func(x int) int { return x + gInt }", "func(x int) int { return vari(x) }"})
	case TChan:
		return "gCh"
	case TArr:
		return "[3]int{gInt, 2}"
	case TStringer:
		return g.pickS([]string{"Stringer(MyInt(gInt))", "Stringer(&gSt)"})
	}
	return "gInt"
}

func (g *ProgGen) lit(ty Ty) string {
	switch ty {
	case TInt, TI64, TUint, TMyInt:
		return g.pickS([]string{"0", "1", "2", "7", "10", "100", "KA", "KC", "1 << 4", "3 * 4", "0x1f", "1_000"})
	case TInt8:
		return g.pickS([]string{"0", "1", "-1", "127", "-128", "KT", "5"})
	case TU8:
		return g.pickS([]string{"0", "1", "255", "'a'", "0x7f"})
	case TRune:
		return g.pickS([]string{"'a'", "'\\n'", "'世'", "'A'"})
	case TF64:
		return g.pickS([]string{"0.5", "1.0", "2", "KF", "1e3", "3.25", "-0.125"})
	case TC128:
		return g.pickS([]string{"1i", "2 + 3i", "0.5"})
	case TStr:
		return g.pickS([]string{"\"a\"", "\"\"", "\"hello\"", "KStr", "`raw`", "\"x\\ty\"", "(\"a\" + \"b\")"})
	case TBool:
		return g.pickS([]string{"true", "false"})
	}
	return ""
}

// Expr returns an expression of type ty.
func (g *ProgGen) Expr(ty Ty, d int) string {
	if d <= 0 {
		if l := g.lit(ty); l != "" && g.R.Chance(45) {
			return l
		}
		return g.nonConst(ty, 0)
	}
	switch {
	case ty.numeric():
		switch g.R.Intn(10) {
		case 0, 1, 2: // binary: left operand non-constant
			ops := []string{"+", "-", "*"}
			if ty.integer() {
				ops = append(ops, "&", "|", "^", "&^")
			}
			return "(" + g.nonConst(ty, d-1) + " " + h.Pick(g.R, ops) + " " + g.Expr(ty, d-1) + ")"
		case 3:
			div := g.lit(ty)
			for div == "0" || div == "'\\x00'" {
				div = g.lit(ty)
			}
			if ty == TInt8 || ty == TU8 || ty == TRune || strings.ContainsAny(div, "-") {
				div = "3"
			}
			op := "/"
			if ty.integer() && g.R.Bool() {
				op = "%"
			}
			return "(" + g.nonConst(ty, d-1) + " " + op + " " + div + ")"
		case 4:
			if ty.integer() {
				return "(" + g.nonConst(ty, d-1) + " " + g.pickS([]string{"<<", ">>"}) + " " + g.pickS([]string{"1", "2", "3", "uint(gInt)", "gInt"}) + ")"
			}
			return "-" + g.nonConst(ty, d-1)
		case 5: // conversion from another numeric type
			from := h.Pick(g.R, []Ty{TInt, TF64, TI64, TU8, TMyInt, TUint})
			return ty.String() + "(" + g.nonConst(from, d-1) + ")"
		case 6:
			if ty == TInt {
				return g.pickS([]string{"len(" + g.Expr(TSliceInt, d-1) + ")", "len(" + g.Expr(TStr, d-1) + ")", "vari(" + g.Expr(TInt, d-1) + ", " + g.Expr(TInt, d-1) + ")",
					"apply(" + g.Expr(TFn, d-1) + ", " + g.Expr(TInt, d-1) + ")", g.Expr(TSliceInt, d-1) + "[0]", g.Expr(TMap, d-1) + "[" + g.Expr(TStr, d-1) + "]", g.Expr(TStruct, d-1) + ".A",
					g.Expr(TPtrStruct, d-1) + ".A", "(*" + g.nonConst(TPtrInt, d-1) + ")", g.Expr(TStruct, d-1) + ".Sum()", "gmax(" + g.nonConst(TInt, d-1) + ", " + g.Expr(TInt, d-1) + ")",
					"vari(" + g.Expr(TSliceInt, d-1) + "...)", g.Expr(TArr, d-1) + "[1]", "copy(" + g.nonConst(TSliceInt, d-1) + ", gSlice)", "min(" + g.nonConst(TInt, d-1) + ", " + g.nonConst(TInt, d-1) + ")",
					g.Expr(TFn, 0) + "(" + g.Expr(TInt, d-1) + ")", "int(" + g.Expr(TAny, 0) + ".(int))"})
			}
			if ty == TMyInt {
				return g.nonConst(TMyInt, d-1) + ".Twice()"
			}
			if ty == TF64 {
				return g.pickS([]string{"real(" + g.Expr(TC128, d-1) + ")", "gmax(" + g.nonConst(TF64, d-1) + ", 1.5)", "max(" + g.nonConst(TF64, d-1) + ", " + g.nonConst(TF64, d-1) + ")"})
			}
			if ty == TU8 {
				return g.nonConst(TStr, d-1) + "[0]"
			}
			return g.nonConst(ty, d-1)
		case 7:
			return "-" + g.nonConst(ty, d-1)
		case 8:
			if ty.integer() {
				return "^" + g.nonConst(ty, d-1)
			}
			return "+" + g.nonConst(ty, d-1)
		default:
			return g.Expr(ty, 0)
		}
	case ty == TStr:
		switch g.R.Intn(8) {
		case 0, 1:
			return "(" + g.nonConst(TStr, d-1) + " + " + g.Expr(TStr, d-1) + ")"
		case 2:
			return "upper(" + g.Expr(TStr, d-1) + ")"
		case 3:
			return "fmt.Sprint(" + g.Expr(g.valTy(), d-1) + ", " + g.Expr(TInt, d-1) + ")"
		case 4:
			return g.Expr(TSliceStr, d-1) + "[0]"
		case 5:
			return "string(" + g.nonConst(TRune, d-1) + ")"
		case 6:
			return g.Expr(TStringer, d-1) + ".String()"
		default:
			return g.nonConst(TStr, d-1) + "[" + g.pickS([]string{":1", "1:", ":", "0:len(gStr)"}) + "]"
		}
	case ty == TBool:
		switch g.R.Intn(9) {
		case 0, 1, 2:
			t := h.Pick(g.R, []Ty{TInt, TInt, TStr, TF64, TInt8, TMyInt, TRune})
			return "(" + g.nonConst(t, d-1) + " " + g.pickS([]string{"==", "!=", "<", "<=", ">", ">="}) + " " + g.Expr(t, d-1) + ")"
		case 3:
			return "(" + g.typedBool(d-1) + " && " + g.typedBool(d-1) + ")"
		case 4:
			return "(" + g.typedBool(d-1) + " || " + g.typedBool(d-1) + ")"
		case 5:
			return "!" + g.typedBool(d-1)
		case 6:
			t := h.Pick(g.R, []Ty{TErr, TPtrInt, TPtrStruct, TSliceInt, TMap, TFn, TChan})
			x := g.nonConst(t, d-1)
			if t == TFn && strings.HasPrefix(x, "func") {
				x = "gSlice"
			}
			return "(" + x + " " + g.pickS([]string{"==", "!="}) + " nil)"
		case 7:
			t := h.Pick(g.R, []Ty{TArr, TErr, TAny, TPtrInt, TC128, TPtrStruct, TChan})
			return "(" + g.nonConst(t, d-1) + " == " + g.nonConst(t, d-1) + ")"
		default:
			return "errors.Is(" + g.Expr(TErr, d-1) + ", ErrBoom)"
		}
	case ty == TC128:
		return g.pickS([]string{"complex(" + g.Expr(TF64, d-1) + ", " + g.nonConst(TF64, d-1) + ")", "(" + g.nonConst(TC128, d-1) + " * " + g.Expr(TC128, d-1) + ")", g.nonConst(TC128, d-1)})
	case ty == TSliceInt:
		return g.pickS([]string{"append(" + g.nonConst(TSliceInt, d-1) + ", " + g.Expr(TInt, d-1) + ")", "[]int{" + g.Expr(TInt, d-1) + ", " + g.Expr(TInt, d-1) + "}", g.nonConst(TSliceInt, d-1) + "[1:]",
			"make([]int, " + g.Expr(TInt, d-1) + ")", "gmap(" + g.Expr(TSliceStr, d-1) + ", func(s string) int { return len(s) })", "append([]int(nil), " + g.nonConst(TSliceInt, d-1) + "...)",
			g.Expr(TStruct, d-1) + ".C", "[]int{2: " + g.Expr(TInt, d-1) + ", 5}", g.nonConst(TSliceInt, d-1) + "[:2:3]"})
	case ty == TSliceStr:
		return g.pickS([]string{"[]string{" + g.Expr(TStr, d-1) + ", " + g.Expr(TStr, d-1) + "}", "append(" + g.nonConst(TSliceStr, d-1) + ", " + g.Expr(TStr, d-1) + ")", "strings.Fields(" + g.Expr(TStr, d-1) + ")",
			"gmap(" + g.Expr(TSliceInt, d-1) + ", func(v int) string { return fmt.Sprint(v) })"})
	case ty == TMap:
		return g.pickS([]string{"map[string]int{" + g.Expr(TStr, d-1) + ": " + g.Expr(TInt, d-1) + "}", "make(map[string]int)", "map[string]int{}", g.nonConst(TMap, d-1)})
	case ty == TPtrInt:
		return g.nonConst(TPtrInt, d-1)
	case ty == TStruct:
		return g.pickS([]string{"MyStruct{A: " + g.Expr(TInt, d-1) + ", B: " + g.Expr(TStr, d-1) + "}", "MyStruct{" + g.Expr(TInt, d-1) + ", " + g.Expr(TStr, d-1) + ", nil}", "(*" + g.nonConst(TPtrStruct, d-1) + ")", "MyStruct{C: " + g.Expr(TSliceInt, d-1) + "}", "MyStruct{}"})
	case ty == TPtrStruct:
		return g.pickS([]string{"(&MyStruct{A: " + g.Expr(TInt, d-1) + "})", g.nonConst(TPtrStruct, d-1), "(&" + g.assignableOr(TStruct, "gSt") + ")"})
	case ty == TErr:
		return g.pickS([]string{"mkerr(" + g.Expr(TStr, d-1) + ")", "fmt.Errorf(\"%v\", " + g.Expr(g.valTy(), d-1) + ")", "ErrBoom", "error(nil)"})
	case ty == TAny:
		return g.pickS([]string{"any(" + g.nonConst(g.valTy(), d-1) + ")", g.nonConst(TAny, d-1)})
	case ty == TFn:
		return g.pickS([]string{"func(x int) int { return x * " + g.Expr(TInt, d-1) + " }", g.nonConst(TFn, d-1), "func(x int) int { if x > 0 { return x }; return -x }"})
	case ty == TArr:
		return g.pickS([]string{"[3]int{" + g.Expr(TInt, d-1) + "}", "[...]int{1, 2, " + g.Expr(TInt, d-1) + "}", g.nonConst(TArr, d-1)})
	case ty == TStringer:
		return g.pickS([]string{"Stringer(" + g.nonConst(TMyInt, d-1) + ")", "Stringer(" + g.Expr(TPtrStruct, d-1) + ")", g.nonConst(TStringer, d-1)})
	}
	return g.nonConst(ty, d-1)
}

// typedBool returns an expression of the typed type bool (comparisons are untyped boolean values in Go; the
// builder reports && / || over them as bool — a recorded C03 finding at the atom layer — so they are converted here).
func (g *ProgGen) typedBool(d int) string {
	if vs := g.varsOf(TBool, false); len(vs) > 0 && g.R.Chance(50) {
		return h.Pick(g.R, vs)
	}
	switch g.R.Intn(4) {
	case 0:
		return "strings.HasPrefix(" + g.Expr(TStr, d) + ", KStr)"
	case 1:
		return "errors.Is(" + g.Expr(TErr, d) + ", ErrBoom)"
	default:
		t := h.Pick(g.R, []Ty{TInt, TStr, TF64})
		return "bool(" + g.nonConst(t, d) + " " + g.pickS([]string{"==", "<", ">="}) + " " + g.Expr(t, d) + ")"
	}
}

func (g *ProgGen) assignableOr(ty Ty, dflt string) string {
	if vs := g.varsOf(ty, true); len(vs) > 0 {
		return h.Pick(g.R, vs)
	}
	return dflt
}

func (g *ProgGen) block(n int) {
	g.push()
	g.depth++
	for i := 0; i < n; i++ {
		g.Stmt()
	}
	g.depth--
	g.pop()
}

func (g *ProgGen) exprDepth() int { return g.R.Intn(3) }

// Stmt emits one random statement.
func (g *ProgGen) Stmt() {
	g.stmts++
	g.total++
	if g.FaultAt > 0 && g.total == g.FaultAt {
		g.w("%s", g.Fault)
		g.Injected = true
		return
	}
	deep := g.depth < g.MaxDepth && g.stmts < g.MaxStmts
	k := g.R.Intn(34)
	if !deep && k >= 14 && k <= 25 {
		k = g.R.Intn(14)
	}
	switch k {
	case 0, 1, 2:
		ty := g.valTy()
		e := g.Expr(ty, g.exprDepth())
		if l := g.lit(ty); (e == l || isLitOnly(e)) && ty != TInt && ty != TStr && ty != TBool && ty != TF64 && ty != TRune && ty != TC128 {
			g.w("var %s %s = %s", g.declareLate(ty), ty, e)
		} else if ty == TErr || ty == TAny || ty == TStringer || (isLitOnly(e) && defaultTy(ty) != ty) {
			g.w("var %s %s = %s", g.declareLate(ty), ty, e)
		} else {
			g.w("%s := %s", g.declareLate(ty), e)
		}
	case 3:
		ty := g.valTy()
		g.w("var %s %s", g.declareLate(ty), ty)
	case 4, 5:
		ty := g.valTy()
		if vs := g.varsOf(ty, true); len(vs) > 0 {
			g.w("%s = %s", h.Pick(g.R, vs), g.Expr(ty, g.exprDepth()))
		} else {
			g.w("gInt = %s", g.Expr(TInt, g.exprDepth()))
		}
	case 6:
		ty := h.Pick(g.R, []Ty{TInt, TF64, TStr, TInt8, TMyInt, TU8})
		v := g.assignableOr(ty, map[Ty]string{TInt: "gInt", TF64: "gF64", TStr: "gStr"}[ty])
		if v == "" {
			g.w("gInt++")
			return
		}
		op := "+="
		if ty != TStr {
			op = g.pickS([]string{"+=", "-=", "*="})
			if ty.integer() && g.R.Chance(30) {
				op = g.pickS([]string{"&=", "|=", "^=", "<<=", ">>=", "%=", "/=", "&^="})
			}
		}
		rhs := g.Expr(ty, 1)
		if op == "<<=" || op == ">>=" {
			rhs = "2"
		}
		if op == "%=" || op == "/=" {
			rhs = "3"
		}
		g.w("%s %s %s", v, op, rhs)
	case 7:
		switch g.R.Intn(4) {
		case 0:
			g.w("%s++", g.assignableOr(TInt, "gInt"))
		case 1:
			g.w("%s[%s]--", g.nonConstVar(TMap, "gMap"), g.Expr(TStr, 0))
		case 2:
			g.w("%s.A++", g.assignableOr(TStruct, "gSt"))
		default:
			g.w("gSlice[%s]++", g.lit(TInt))
		}
	case 8:
		switch g.R.Intn(6) {
		case 0:
			g.w("%s[%s] = %s", g.nonConstVar(TSliceInt, "gSlice"), g.Expr(TInt, 0), g.Expr(TInt, 1))
		case 1:
			g.w("%s[%s] = %s", g.nonConstVar(TMap, "gMap"), g.Expr(TStr, 1), g.Expr(TInt, 1))
		case 2:
			g.w("%s.B = %s", g.assignableOr(TStruct, "gSt"), g.Expr(TStr, 1))
		case 3:
			g.w("*%s = %s", g.nonConstVar(TPtrInt, "(&gInt)"), g.Expr(TInt, 1))
		case 4:
			g.w("%s.A, gOuter.Name = %s, %s", g.nonConstVar(TPtrStruct, "(&gSt)"), g.Expr(TInt, 1), g.Expr(TStr, 1))
		default:
			g.w("gOuter.ID, gOuter.Base.ID = %s, %s", g.Expr(TInt, 1), g.Expr(TInt, 0))
		}
	case 9:
		switch g.R.Intn(6) {
		case 0:
			a, b := g.declareLate(TInt), g.declareLate(TErr)
			g.w("%s, %s := two()", a, b)
		case 1:
			rhs := g.nonConstVar(TMap, "gMap") + "[" + g.Expr(TStr, 0) + "]"
			a, b := g.declareLate(TInt), g.declareLate(TBool)
			g.w("%s, %s := %s", a, b, rhs)
		case 2:
			rhs := g.nonConst(TAny, 0) + ".(string)"
			a, b := g.declareLate(TStr), g.declareLate(TBool)
			g.w("%s, %s := %s", a, b, rhs)
		case 3:
			rhs := "pair(" + g.Expr(TInt, 1) + ", " + g.Expr(TStr, 1) + ")"
			a, b := g.declareLate(TStr), g.declareLate(TInt)
			g.w("%s, %s := %s", a, b, rhs)
		case 4:
			xs := g.varsOf(TInt, true)
			if len(xs) >= 2 {
				g.w("%s, %s = %s, %s", xs[0], xs[1], xs[1], xs[0])
			} else {
				g.w("gInt, gStr = %s, %s", g.Expr(TInt, 1), g.Expr(TStr, 1))
			}
		default:
			g.w("_, _ = %s, %s", g.Expr(g.valTy(), 1), g.Expr(g.valTy(), 1))
		}
	case 10:
		switch g.R.Intn(7) {
		case 0:
			g.w("fmt.Println(%s, %s)", g.Expr(g.valTy(), 1), g.Expr(g.valTy(), 1))
		case 1:
			g.w("%s.SetA(%s)", g.nonConstVar(TPtrStruct, "(&gSt)"), g.Expr(TInt, 1))
		case 2:
			g.w("gOuter.Bump()")
		case 3:
			g.w("%s(%s)", g.nonConst(TFn, 0), g.Expr(TInt, 1))
			if strings.HasPrefix(g.lastLine(), "func") {
				g.replaceLast("_ = " + g.lastLine())
			}
		case 4:
			g.w("_ = apply(%s, %s)", g.Expr(TFn, 1), g.Expr(TInt, 1))
		case 5:
			g.w("delete(%s, %s)", g.nonConstVar(TMap, "gMap"), g.Expr(TStr, 1))
		default:
			g.w("println(%s)", g.Expr(g.valTy(), 1))
		}
	case 11:
		switch g.R.Intn(3) {
		case 0:
			g.w("%s <- %s", g.nonConstVar(TChan, "gCh"), g.Expr(TInt, 1))
		case 1:
			g.w("<-%s", g.nonConstVar(TChan, "gCh"))
		default:
			rhs := g.nonConstVar(TChan, "gCh")
			a, b := g.declareLate(TInt), g.declareLate(TBool)
			g.w("%s, %s := <-%s", a, b, rhs)
		}
	case 12:
		if len(g.results) > 0 && g.R.Chance(50) {
			g.w("if %s {", g.cond(1))
			g.depth++
			g.ret()
			g.depth--
			g.w("}")
		} else if g.loops > 0 {
			if len(g.labels) > 0 && g.R.Bool() {
				g.w("if %s { %s %s }", g.cond(1), g.pickS([]string{"break", "continue"}), h.Pick(g.R, g.labels))
			} else {
				g.w("if %s { %s }", g.cond(1), g.pickS([]string{"break", "continue"}))
			}
		} else {
			g.w("_ = %s", g.Expr(g.valTy(), 2))
		}
	case 13:
		g.w("const c%d = %s", g.nvar+1000, g.pickS([]string{"3", "\"c\"", "2.5", "KA + 1", "'x'", "1 << 10"}))
		g.w("_ = c%d", g.nvar+1000)
		g.nvar++
	case 14, 15, 16:
		g.hdr++
		hd, pushed := g.ifHeader()
		g.hdr--
		g.w("if %s {", hd)
		g.block(1 + g.R.Intn(3))
		for g.R.Chance(35) {
			g.hdr++
			ec := g.Expr(TBool, g.exprDepth())
			g.hdr--
			g.w("} else if %s {", ec)
			g.block(1 + g.R.Intn(2))
		}
		if g.R.Chance(50) {
			g.w("} else {")
			g.block(1 + g.R.Intn(2))
		}
		g.w("}")
		if pushed {
			g.pop()
		}
	case 17, 18:
		lbl := ""
		if g.R.Chance(25) {
			g.nlabel++
			lbl = fmt.Sprintf("L%d", g.nlabel)
		}
		g.push()
		g.hdr++
		switch g.R.Intn(8) {
		case 0:
			lim := g.Expr(TInt, 1)
			i := g.declare(TInt, false)
			g.forOpen(lbl, fmt.Sprintf("for %s := 0; %s < %s; %s++ {", i, i, lim, i))
		case 1:
			g.forOpen(lbl, fmt.Sprintf("for %s {", g.Expr(TBool, 1)))
		case 2:
			x := g.Expr(TSliceInt, 1)
			k, v := g.declare(TInt, false), g.declare(TInt, false)
			g.forOpen(lbl, fmt.Sprintf("for %s, %s := range %s {", k, v, x))
		case 3:
			x := g.Expr(TMap, 1)
			k, v := g.declare(TStr, false), g.declare(TInt, false)
			g.forOpen(lbl, fmt.Sprintf("for %s, %s := range %s {", k, v, x))
		case 4:
			x := g.Expr(TStr, 1)
			k, v := g.declare(TInt, false), g.declare(TRune, false)
			g.forOpen(lbl, fmt.Sprintf("for %s, %s := range %s {", k, v, x))
		case 5:
			k := g.declare(TInt, false)
			g.forOpen(lbl, fmt.Sprintf("for %s := range %s {", k, g.pickS([]string{"3", "gInt", "len(gSlice)"})))
		case 6:
			g.forOpen(lbl, "for range "+g.Expr(TSliceStr, 1)+" {")
		default:
			x := g.Expr(TSliceStr, 1)
			v := g.declare(TStr, false)
			g.forOpen(lbl, fmt.Sprintf("for _, %s := range %s {", v, x))
		}
		g.hdr--
		g.loops++
		if lbl != "" {
			g.labels = append(g.labels, lbl)
		}
		g.block(1 + g.R.Intn(3))
		if lbl != "" {
			// make sure the label is used
			g.depth++
			g.w("if %s { continue %s }", g.cond(0), lbl)
			g.depth--
			g.labels = g.labels[:len(g.labels)-1]
		}
		g.loops--
		g.w("}")
		g.pop()
	case 19, 20:
		switch g.R.Intn(3) {
		case 0:
			ty := h.Pick(g.R, []Ty{TInt, TStr, TMyInt, TRune, TInt8})
			g.hdr++
			tag := g.nonConst(ty, 1)
			g.hdr--
			g.w("switch %s {", tag)
			n := 1 + g.R.Intn(3)
			hasFall := false
			used := map[string]bool{}
			for i := 0; i < n; i++ {
				c := g.lit(ty)
				if used[c] || strings.ContainsAny(c, "K+<*_x'") && ty != TRune && ty != TStr {
					c = g.nonConst(ty, 0)
				}
				if used[c] {
					continue
				}
				used[c] = true
				if g.R.Chance(30) {
					g.w("case %s, %s:", c, g.nonConst(ty, 0))
				} else {
					g.w("case %s:", c)
				}
				g.inSwitch++
				g.block(1 + g.R.Intn(2))
				g.inSwitch--
				if g.R.Chance(15) {
					g.depth++
					g.w("fallthrough")
					g.depth--
					hasFall = true
				} else {
					hasFall = false
				}
			}
			if hasFall || g.R.Bool() {
				g.w("default:")
				g.block(1)
			}
			g.w("}")
		case 1:
			g.w("switch {")
			for i := 0; i < 1+g.R.Intn(3); i++ {
				g.w("case %s:", g.Expr(TBool, 1)) // case clauses are not header positions
				g.block(1 + g.R.Intn(2))
			}
			g.w("default:")
			g.block(1)
			g.w("}")
		default:
			bind := g.R.Bool()
			g.push()
			name := ""
			if bind {
				g.nvar++
				name = fmt.Sprintf("v%d", g.nvar)
				g.hdr++
				g.w("switch %s := %s.(type) {", name, g.nonConst(TAny, 0))
				g.hdr--
			} else {
				g.hdr++
				g.w("switch %s.(type) {", g.nonConst(TAny, 0))
				g.hdr--
			}
			for _, c := range [][2]any{{"int", TInt}, {"string", TStr}, {"error", TErr}, {"*MyStruct", TPtrStruct}, {"MyStruct", TStruct}, {"[]int", TSliceInt}} {
				if g.R.Chance(55) {
					g.w("case %s:", c[0])
					g.push()
					if bind {
						g.scopes[len(g.scopes)-1] = append(g.scopes[len(g.scopes)-1], pvar{name, c[1].(Ty), true})
						g.depth++
						g.w("_ = %s", name)
						g.depth--
					}
					g.block(1 + g.R.Intn(2))
					g.pop()
				}
			}
			if g.R.Bool() {
				g.w("case nil, bool:")
				g.block(1)
			}
			g.w("default:")
			if bind {
				g.depth++
				g.w("_ = %s", name)
				g.depth--
			}
			g.block(1)
			g.w("}")
			g.pop()
		}
	case 21:
		g.w("select {")
		if g.R.Bool() {
			c := g.nonConstVar(TChan, "gCh")
			g.push()
			v := g.declare(TInt, false)
			g.w("case %s := <-%s:", v, c)
			g.block(1)
			g.pop()
		}
		if g.R.Bool() {
			g.w("case %s <- %s:", g.nonConstVar(TChan, "gCh"), g.Expr(TInt, 1))
			g.block(1)
		}
		g.w("default:")
		g.block(1)
		g.w("}")
	case 22:
		g.w("{")
		g.block(1 + g.R.Intn(3))
		g.w("}")
	case 23, 24:
		// closure with its own results
		name := g.reserve()
		g.w("%s := func(x int) int {", name)
		saved, sl, sll, ssw := g.results, g.loops, g.labels, g.inSwitch
		g.results, g.loops, g.labels, g.inSwitch = []Ty{TInt}, 0, nil, 0
		g.push()
		g.scopes[len(g.scopes)-1] = append(g.scopes[len(g.scopes)-1], pvar{"x", TInt, false})
		g.block(1 + g.R.Intn(3))
		g.depth++
		g.ret()
		g.depth--
		g.pop()
		g.results, g.loops, g.labels, g.inSwitch = saved, sl, sll, ssw
		g.w("}")
		g.bind(name, TFn)
		g.w("_ = %s(%s)", name, g.Expr(TInt, 1))
	case 25:
		kw := g.pickS([]string{"defer", "go"})
		g.w("%s func() {", kw)
		saved, sl, sll, ssw := g.results, g.loops, g.labels, g.inSwitch
		g.results, g.loops, g.labels, g.inSwitch = nil, 0, nil, 0
		if kw == "defer" && g.R.Bool() {
			g.depth++
			g.w("if r := recover(); r != nil { fmt.Println(r) }")
			g.depth--
		}
		g.block(1 + g.R.Intn(2))
		g.results, g.loops, g.labels, g.inSwitch = saved, sl, sll, ssw
		g.w("}()")
	case 26:
		if len(g.funcs) > 0 {
			f := h.Pick(g.R, g.funcs)
			var args []string
			for _, p := range f.params {
				args = append(args, g.Expr(p, 1))
			}
			call := f.name + "(" + strings.Join(args, ", ") + ")"
			switch len(f.results) {
			case 0:
				g.w("%s", call)
			case 1:
				g.w("%s := %s", g.declareLate(f.results[0]), call)
			default:
				a, b := g.declareLate(f.results[0]), g.declareLate(f.results[1])
				g.w("%s, %s := %s", a, b, call)
			}
		} else {
			g.w("_ = vari(%s)", g.Expr(TInt, 1))
		}
	case 27:
		g.w("%s = append(%s, %s)", "gSlice", "gSlice", g.Expr(TInt, 1))
	case 28:
		g.w("_ = gmax(%s, %s)", g.nonConst(TStr, 0), g.Expr(TStr, 1))
	case 29:
		g.w("_ = %s", g.pickS([]string{"gSt.Sum", "(*MyStruct).SetA", "MyInt.Twice", "gOuter.Bump", "MyStruct.Sum", "gOuter.MyStruct.String", "fmt.Sprintf", "gmax[int]", "gmap[int, string]"}))
	case 30:
		g.w("_ = []MyStruct{{A: %s}, {B: %s}}", g.Expr(TInt, 1), g.Expr(TStr, 1))
	case 31:
		g.w("_ = map[string][]int{%s: {%s, 2}}", g.Expr(TStr, 1), g.Expr(TInt, 1))
	case 32:
		g.w("_ = &Outer{Base: Base{ID: %s}, MyStruct: %s, Name: %s}", g.Expr(TInt, 1), g.Expr(TPtrStruct, 1), g.Expr(TStr, 1))
	default:
		g.w("_ = %s", g.Expr(g.valTy(), 2))
	}
}

func defaultTy(ty Ty) Ty {
	switch ty {
	case TInt, TStr, TBool, TF64, TRune, TC128:
		return ty
	}
	return -1
}

func isLitOnly(e string) bool {
	for _, c := range e {
		if !(c >= '0' && c <= '9') && !strings.ContainsRune("._-+ x<*'\"`\\abcdefKABCTFStr", c) {
			return false
		}
	}
	return !strings.Contains(e, "g") && !strings.Contains(e, "v")
}

func (g *ProgGen) nonConstVar(ty Ty, dflt string) string {
	if vs := g.varsOf(ty, false); len(vs) > 0 && g.R.Chance(60) {
		return h.Pick(g.R, vs)
	}
	return dflt
}

// declareLate allocates a name that becomes visible after the statement being emitted
// (callers compute the right-hand side BEFORE calling it).
func (g *ProgGen) declareLate(ty Ty) string { return g.declare(ty, false) }

func (g *ProgGen) reserve() string {
	g.nvar++
	return fmt.Sprintf("v%d", g.nvar)
}

func (g *ProgGen) bind(name string, ty Ty) {
	g.scopes[len(g.scopes)-1] = append(g.scopes[len(g.scopes)-1], pvar{name, ty, false})
}

func (g *ProgGen) lastLine() string {
	s := strings.TrimRight(g.sb.String(), "\n")
	i := strings.LastIndexByte(s, '\n')
	return strings.TrimSpace(s[i+1:])
}

func (g *ProgGen) replaceLast(line string) {
	s := strings.TrimRight(g.sb.String(), "\n")
	i := strings.LastIndexByte(s, '\n')
	g.sb.Reset()
	g.sb.WriteString(s[:i+1])
	g.w("%s", line)
}

// cond returns a boolean expression usable in a statement header.
func (g *ProgGen) cond(d int) string {
	g.hdr++
	defer func() { g.hdr-- }()
	return g.Expr(TBool, d)
}

func (g *ProgGen) forOpen(lbl, head string) {
	if lbl != "" {
		g.w("%s:", lbl)
	}
	g.w("%s", head)
}

func (g *ProgGen) ifHeader() (string, bool) {
	if g.R.Chance(25) {
		e := g.Expr(TInt, 1)
		g.push()
		v := g.declare(TInt, false)
		return fmt.Sprintf("%s := %s; %s > %s", v, e, v, g.lit(TInt)), true
	}
	if g.R.Chance(10) {
		return g.Expr(TStruct, 0) + ".A == (MyStruct{A: 1}).A", false // this form the builder does parenthesise
	}
	return g.Expr(TBool, g.exprDepth()), false
}

func (g *ProgGen) ret() {
	var rs []string
	for _, t := range g.results {
		rs = append(rs, g.Expr(t, 1))
	}
	g.w("return %s", strings.Join(rs, ", "))
}

// Func emits one top-level function and registers it for later calls.
func (g *ProgGen) Func(name string, method bool) {
	np := g.R.Intn(4)
	var params []Ty
	var ps []string
	g.scopes = nil
	g.push()
	for i := 0; i < np; i++ {
		t := g.valTy()
		params = append(params, t)
		ps = append(ps, g.declare(t, false)+" "+t.String())
	}
	nr := g.R.Intn(3)
	var results []Ty
	var rs []string
	for i := 0; i < nr; i++ {
		t := g.valTy()
		results = append(results, t)
		rs = append(rs, t.String())
	}
	res := ""
	if nr == 1 {
		res = " " + rs[0]
		if strings.HasPrefix(rs[0], "func") {
			res = " (" + rs[0] + ")"
		}
	} else if nr > 1 {
		res = " (" + strings.Join(rs, ", ") + ")"
	}
	recv := ""
	if method {
		recv = g.pickS([]string{"(s MyStruct) ", "(s *MyStruct) ", "(m MyInt) ", "(o *Outer) "})
	}
	fmt.Fprintf(&g.sb, "func %s%s(%s)%s {\n", recv, name, strings.Join(ps, ", "), res)
	g.results = results
	g.depth = 0
	g.loops, g.labels, g.inSwitch = 0, nil, 0
	n := 2 + g.R.Intn(8)
	g.push()
	for i := 0; i < n; i++ {
		g.Stmt()
	}
	if nr > 0 {
		g.ret()
	}
	g.pop()
	g.pop()
	g.sb.WriteString("}\n\n")
	if !method {
		g.funcs = append(g.funcs, pfunc{name, params, results})
	}
}

// Faults are single statements Go rejects, built from package-level names only so that they can be placed anywhere.
// Only fault kinds that the atom layer shows to be reliably rejected are listed (layering rule); the others
// (unchecked index/slice operand types, conversions, constant representability ...) are decided at the atom layer.
var Faults = []string{
	"gInt = gStr", "gStr = gInt", "gInt = gF64", "gSlice = gMap", "gSt.A = gStr", "gSt.Nope = 1", "gSt.Nope()", "gInt.A = 1", "_ = gInt.Foo",
	"gMap[\"a\"] = \"b\"", "two(1)", "_ = vari(\"a\")", "_ = apply(gInt, 1)", "_ = upper(1)", "_ = upper()", "_ = upper(\"a\", \"b\")",
	"var q int = gStr; _ = q", "var q MyStruct = gInt; _ = q", "q := two(); _ = q", "a, b, c := two(); _, _, _ = a, b, c", "gInt, gStr = two()",
	"if gInt {}", "for gStr {}", "switch gInt { case \"a\": }", "switch gStr { case 1: }", "_ = gInt + gF64", "_ = gStr * gStr", "_ = -gStr", "_ = !gInt", "_ = gSt + gSt",
	"_ = *gInt", "_ = gInt.(int)", "_ = <-gInt", "_ = len(gInt)", "_ = append(gInt, 1)", "_ = append(gSlice, gStr)",
	"_ = MyStruct{A: gStr}", "_ = MyStruct{1, gStr, nil, 4}", "_ = []int{gStr}", "_ = map[string]int{gInt: 1}", "var s Stringer = gSt; _ = s",
	"_ = gmax(gInt, gStr)", "gSt.SetA(gStr)", "gStr++", "_ = gInt && gInt", "_ = gStr < gInt", "gInt += gStr", "gStr -= gStr", "_ = gSt.Sum(1)", "_ = gOuter.Ident(gStr)",
	"var e error = gInt; _ = e", "_ = func() int { return gStr }", "_ = func() (int, string) { return gInt }", "fn := func(x int) {}; fn(gStr)",
}

// ProgramWithFault generates the same program as Program but replaces one statement (chosen by r) with an ill-typed one.
func ProgramWithFault(r *h.Rand, nfuncs, maxDepth, maxStmts int, fr *h.Rand) (src, fault string) {
	// first pass: count statements
	g0 := newProgGen(r.Clone(), maxDepth, maxStmts)
	g0.run(nfuncs)
	if g0.total == 0 {
		return g0.sb.String(), ""
	}
	g := newProgGen(r, maxDepth, maxStmts)
	g.FaultAt = 1 + fr.Intn(g0.total)
	g.Fault = h.Pick(fr, Faults)
	g.run(nfuncs)
	if !g.Injected {
		return g.sb.String(), ""
	}
	return g.sb.String(), g.Fault
}

func newProgGen(r *h.Rand, maxDepth, maxStmts int) *ProgGen {
	return &ProgGen{R: r, MaxDepth: maxDepth, MaxStmts: maxStmts}
}

// Program returns a complete generated program.
func Program(r *h.Rand, nfuncs, maxDepth, maxStmts int) string {
	g := newProgGen(r, maxDepth, maxStmts)
	g.run(nfuncs)
	return g.sb.String()
}

func (g *ProgGen) run(nfuncs int) {
	r := g.R
	g.sb.WriteString(ProgPrelude)
	g.sb.WriteString("\n")
	for i := 0; i < nfuncs; i++ {
		g.stmts = 0
		if r.Chance(20) {
			g.Func(fmt.Sprintf("Meth%d", i), true)
		} else {
			g.Func(fmt.Sprintf("f%d", i), false)
		}
	}
	g.sb.WriteString("func main() {\n")
	g.scopes = nil
	g.push()
	g.results = nil
	g.depth = 0
	g.stmts = 0
	for i := 0; i < 3+r.Intn(6); i++ {
		g.Stmt()
	}
	g.pop()
	g.sb.WriteString("}\n")
}
