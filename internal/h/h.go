// Package h is the supervisor/worker harness shared by all checks (DESIGN.md E4):
// case sharding over isolated worker processes, journals, resource watchdog,
// known-finding matching, replay files and evidence writing.
package h

import (
	"bufio"
	"crypto/sha256"
	"encoding/hex"
	"encoding/json"
	"fmt"
	"os"
	"os/exec"
	"path/filepath"
	"runtime"
	"runtime/debug"
	"sort"
	"strconv"
	"strings"
	"sync"
	"sync/atomic"
	"syscall"
	"time"
)

const (
	Held         = "held"
	Violated     = "violated"
	Inconclusive = "inconclusive"
	Skip         = "skip"
)

// Result is one decided observation.
type Result struct {
	Key        string           `json:"key"`              // canonical identity of the input
	Verdict    string           `json:"verdict"`          // held / violated / inconclusive / skip
	Kind       string           `json:"kind,omitempty"`   // stable fingerprint of the wrong behaviour (violations)
	Detail     string           `json:"detail,omitempty"` // human readable
	Input      string           `json:"input,omitempty"`  // materialised input when it is more than Key
	NonTrivial bool             `json:"nt,omitempty"`
	Counters   map[string]int64 `json:"c,omitempty"`
	Tags       []string         `json:"t,omitempty"` // things observed, counted distinct per prefix "group:"
}

func (r *Result) Count(name string, n int64) {
	if r.Counters == nil {
		r.Counters = map[string]int64{}
	}
	r.Counters[name] += n
}

func (r *Result) Tag(t string) { r.Tags = append(r.Tags, t) }

// Check describes one property check.
type Check struct {
	ID       string
	Level    string // evidence level
	Rule     string
	Assume   []string
	Race     bool // run under the race-detector build and scan race logs
	Workers  int  // 0 = default (16)
	MinNT    int  // minimum distinct non-trivial observations for a conclusive run
	CPULimit float64
	MemLimit uint64
	// Plan returns the number of cases of this run.
	Plan func(tier string, seed uint64) int
	// Run executes case i and returns its observations. It runs inside a worker process.
	Run func(tier string, seed uint64, i int) []Result
	// Describe (optional) renders the input of case i without running it (used when a worker died).
	Describe func(tier string, seed uint64, i int) string
	// Exhaustive reports whether the tier enumerates its space completely.
	Exhaustive func(tier string) bool
}

var registry = map[string]*Check{}

func Register(c *Check)       { registry[c.ID] = c }
func Lookup(id string) *Check { return registry[id] }
func IDs() []string {
	var ids []string
	for k := range registry {
		ids = append(ids, k)
	}
	sort.Strings(ids)
	return ids
}

func Seed() uint64 {
	if s := os.Getenv("VERIF_SEED"); s != "" {
		if v, err := strconv.ParseUint(s, 10, 64); err == nil {
			return v
		}
		if v, err := strconv.ParseInt(s, 10, 64); err == nil {
			return uint64(v)
		}
	}
	return 1
}

func Root() string {
	if r := os.Getenv("VERIF_ROOT"); r != "" {
		return r
	}
	return "/verif"
}

// ---------------------------------------------------------------------------- PRNG

// Mix is splitmix64 over (seed, stream, index): every case is reproducible from three integers.
func Mix(vals ...uint64) uint64 {
	var x uint64 = 0x9E3779B97F4A7C15
	for _, v := range vals {
		x ^= v + 0x9E3779B97F4A7C15 + (x << 6) + (x >> 2)
		x = sm(x)
	}
	return x
}

func sm(x uint64) uint64 {
	x += 0x9E3779B97F4A7C15
	z := x
	z = (z ^ (z >> 30)) * 0xBF58476D1CE4E5B9
	z = (z ^ (z >> 27)) * 0x94D049BB133111EB
	return z ^ (z >> 31)
}

func StrHash(s string) uint64 {
	h := sha256.Sum256([]byte(s))
	var x uint64
	for i := 0; i < 8; i++ {
		x = x<<8 | uint64(h[i])
	}
	return x
}

type Rand struct{ s uint64 }

func NewRand(vals ...uint64) *Rand { return &Rand{Mix(vals...)} }
func (r *Rand) U64() uint64 {
	r.s += 0x9E3779B97F4A7C15
	z := r.s
	z = (z ^ (z >> 30)) * 0xBF58476D1CE4E5B9
	z = (z ^ (z >> 27)) * 0x94D049BB133111EB
	return z ^ (z >> 31)
}
func (r *Rand) Clone() *Rand { c := *r; return &c }
func (r *Rand) Intn(n int) int {
	if n <= 0 {
		return 0
	}
	return int(r.U64() % uint64(n))
}
func (r *Rand) Bool() bool          { return r.U64()&1 == 1 }
func (r *Rand) Chance(p int) bool   { return r.Intn(100) < p }
func Pick[T any](r *Rand, xs []T) T { return xs[r.Intn(len(xs))] }
func (r *Rand) Perm(n int) []int {
	p := make([]int, n)
	for i := range p {
		p[i] = i
	}
	for i := n - 1; i > 0; i-- {
		j := r.Intn(i + 1)
		p[i], p[j] = p[j], p[i]
	}
	return p
}

// Sample returns the indices (into a catalogue of n items organised in strata given by stratum(i))
// chosen for a quick run: at least `per` of every stratum, seed-permuted.
func Sample(n int, stratum func(i int) string, per int, seed uint64) []int {
	groups := map[string][]int{}
	var order []string
	for i := 0; i < n; i++ {
		s := stratum(i)
		if _, ok := groups[s]; !ok {
			order = append(order, s)
		}
		groups[s] = append(groups[s], i)
	}
	var out []int
	for _, s := range order {
		g := groups[s]
		r := NewRand(seed, StrHash(s))
		p := r.Perm(len(g))
		k := per
		if k > len(g) {
			k = len(g)
		}
		for _, j := range p[:k] {
			out = append(out, g[j])
		}
	}
	sort.Ints(out)
	return out
}

// ---------------------------------------------------------------------------- worker

var curCase atomic.Int64
var curStartCPU atomic.Int64 // ns of process CPU at case start

func cpuNow() int64 {
	var ru syscall.Rusage
	syscall.Getrusage(syscall.RUSAGE_SELF, &ru)
	return ru.Utime.Nano() + ru.Stime.Nano()
}

// WorkerMain runs cases shard, shard+n, ... and journals them.
func WorkerMain(c *Check, tier string, seed uint64, shard, nshards, start int, journal string) {
	f, err := os.OpenFile(journal, os.O_APPEND|os.O_CREATE|os.O_WRONLY, 0o644)
	if err != nil {
		fmt.Fprintln(os.Stderr, "journal:", err)
		os.Exit(5)
	}
	var mu sync.Mutex
	wr := func(s string) {
		mu.Lock()
		f.WriteString(s)
		mu.Unlock()
	}
	memLimit := c.MemLimit
	if memLimit == 0 {
		memLimit = 3 << 30
	}
	cpuLimit := c.CPULimit
	if cpuLimit == 0 {
		cpuLimit = 60
	}
	debug.SetMemoryLimit(int64(memLimit))
	curCase.Store(-1)
	go func() { // watchdog: logical resources (heap bytes, process CPU), not wall clock
		var ms runtime.MemStats
		for {
			time.Sleep(100 * time.Millisecond)
			i := curCase.Load()
			if i < 0 {
				continue
			}
			runtime.ReadMemStats(&ms)
			if ms.HeapAlloc > memLimit+(memLimit>>2) || ms.Sys > 3*memLimit {
				wr(fmt.Sprintf("X %d oom heap=%d sys=%d\n", i, ms.HeapAlloc, ms.Sys))
				os.Exit(3)
			}
			if float64(cpuNow()-curStartCPU.Load())/1e9 > cpuLimit {
				buf := make([]byte, 1<<16)
				n := runtime.Stack(buf, true)
				wr(fmt.Sprintf("X %d cpu %s\n", i, strconv.Quote(string(buf[:n]))))
				os.Exit(4)
			}
		}
	}()
	n := c.Plan(tier, seed)
	for i := shard; i < n; i += nshards {
		if i < start {
			continue
		}
		wr(fmt.Sprintf("B %d\n", i))
		curStartCPU.Store(cpuNow())
		curCase.Store(int64(i))
		rs := c.Run(tier, seed, i)
		curCase.Store(-1)
		var sb strings.Builder
		for k := range rs {
			b, _ := json.Marshal(&rs[k])
			sb.WriteString("R ")
			sb.WriteString(strconv.Itoa(i))
			sb.WriteByte(' ')
			sb.Write(b)
			sb.WriteByte('\n')
		}
		sb.WriteString(fmt.Sprintf("E %d\n", i))
		wr(sb.String())
	}
	wr("DONE\n")
	f.Close()
}

// ---------------------------------------------------------------------------- supervisor

type knownEntry struct {
	finding string
	key     string
	kind    string
}

type Known struct {
	byKey    map[string]string // key+"\x00"+kind -> finding id
	findings map[string]string // finding id -> description (from KNOWN_FINDINGS.txt)
	listed   map[string]int
	order    []string
}

func LoadKnown(id string) *Known {
	k := &Known{byKey: map[string]string{}, findings: map[string]string{}, listed: map[string]int{}}
	if b, err := os.ReadFile(filepath.Join(Root(), "KNOWN_FINDINGS.txt")); err == nil {
		for _, l := range strings.Split(string(b), "\n") {
			l = strings.TrimSpace(l)
			if !strings.HasPrefix(l, "finding: property="+id+" ") {
				continue
			}
			rest := strings.TrimPrefix(l, "finding: property="+id+" ")
			if !strings.HasPrefix(rest, "id=") {
				continue
			}
			sp := strings.IndexByte(rest, ' ')
			if sp < 0 {
				sp = len(rest)
			}
			fid := rest[3:sp]
			k.findings[fid] = strings.TrimSpace(rest[sp:])
			k.order = append(k.order, fid)
		}
	}
	if b, err := os.ReadFile(filepath.Join(Root(), "known", id+".tsv")); err == nil {
		for _, l := range strings.Split(string(b), "\n") {
			if l == "" || l[0] == '#' {
				continue
			}
			p := strings.SplitN(l, "\t", 3)
			if len(p) != 3 {
				continue
			}
			key, err1 := strconv.Unquote(p[1])
			kind, err2 := strconv.Unquote(p[2])
			if err1 != nil || err2 != nil {
				continue
			}
			if _, ok := k.findings[p[0]]; !ok {
				continue // entries only count under a finding declared in KNOWN_FINDINGS.txt
			}
			k.byKey[key+"\x00"+kind] = p[0]
			k.listed[p[0]]++
		}
	}
	return k
}

func (k *Known) Match(r *Result) string { return k.byKey[r.Key+"\x00"+r.Kind] }

type Agg struct {
	Check        *Check
	Tier         string
	Seed         uint64
	Evaluations  int64
	Held         int64
	Inconcl      int64
	Skipped      int64
	KnownHits    map[string]int64
	Counters     map[string]int64
	tagSets      map[string]map[string]struct{}
	distinct     map[[12]byte]struct{}
	Samples      []any
	Violations   []Result
	violSeen     map[string]bool
	InconclKinds map[string]int64
	SkipKinds    map[string]int64
	cases        int
	Extra        map[string]any
}

func short(s string, n int) string {
	if len(s) > n {
		return s[:n] + "…"
	}
	return s
}

func (a *Agg) add(r *Result, known *Known, caseIdx int) {
	for k, v := range r.Counters {
		a.Counters[k] += v
	}
	for _, t := range r.Tags {
		g := "tags"
		if i := strings.IndexByte(t, ':'); i > 0 {
			g = t[:i]
		}
		if a.tagSets[g] == nil {
			a.tagSets[g] = map[string]struct{}{}
		}
		a.tagSets[g][t] = struct{}{}
	}
	if r.Verdict == Skip {
		a.Skipped++
		if a.SkipKinds == nil {
			a.SkipKinds = map[string]int64{}
		}
		k := r.Kind
		if i := strings.IndexAny(k, ":("); i > 0 {
			k = k[:i]
		}
		a.SkipKinds[k]++
		return
	}
	a.Evaluations++
	if r.NonTrivial {
		h := sha256.Sum256([]byte(r.Key))
		var k12 [12]byte
		copy(k12[:], h[:12])
		a.distinct[k12] = struct{}{}
	}
	switch r.Verdict {
	case Held:
		a.Held++
		if len(a.Samples) < 6 && (a.Evaluations%7 == 1) {
			s := map[string]any{"case": caseIdx, "key": short(r.Key, 600), "verdict": r.Verdict}
			if r.Detail != "" {
				s["observed"] = short(r.Detail, 600)
			}
			if r.Input != "" {
				s["input"] = short(r.Input, 1200)
			}
			a.Samples = append(a.Samples, s)
		}
	case Inconclusive:
		a.Inconcl++
		a.InconclKinds[short(r.Kind, 80)]++
	case Violated:
		if fid := known.Match(r); fid != "" {
			a.KnownHits[fid]++
			return
		}
		id := r.Key + "\x00" + r.Kind
		if a.violSeen[id] {
			return
		}
		a.violSeen[id] = true
		rr := *r
		rr.Count("case", int64(caseIdx))
		a.Violations = append(a.Violations, rr)
	}
}

// Supervise runs the check over worker processes and returns the process exit code.
func Supervise(c *Check, tier string) int {
	t0 := time.Now()
	seed := Seed()
	root := Root()
	n := c.Plan(tier, seed)
	nw := c.Workers
	if nw == 0 {
		nw = 16
	}
	if v := os.Getenv("VERIF_WORKERS"); v != "" {
		if x, err := strconv.Atoi(v); err == nil && x > 0 {
			nw = x
		}
	}
	if nw > n {
		nw = n
	}
	if nw < 1 {
		nw = 1
	}
	scratch, err := os.MkdirTemp("", "vcheck-"+c.ID+"-")
	if err != nil {
		fmt.Println("cannot create scratch dir:", err)
		return 2
	}
	defer os.RemoveAll(scratch)
	exe, _ := os.Executable()
	known := LoadKnown(c.ID)
	agg := &Agg{Check: c, Tier: tier, Seed: seed, KnownHits: map[string]int64{}, Counters: map[string]int64{},
		tagSets: map[string]map[string]struct{}{}, distinct: map[[12]byte]struct{}{}, violSeen: map[string]bool{},
		InconclKinds: map[string]int64{}, cases: n, Extra: map[string]any{}}

	type wres struct {
		results map[int][]Result
		crashes []Result
		race    string
	}
	out := make([]wres, nw)
	var wg sync.WaitGroup
	for w := 0; w < nw; w++ {
		wg.Add(1)
		go func(w int) {
			defer wg.Done()
			res := wres{results: map[int][]Result{}}
			start := 0
			wallLimit := 6 * time.Hour
			for attempt := 0; attempt < 400; attempt++ {
				journal := filepath.Join(scratch, fmt.Sprintf("j%d.%d", w, attempt))
				cmd := exec.Command(exe, "worker", c.ID, tier, strconv.FormatUint(seed, 10), strconv.Itoa(w), strconv.Itoa(nw), strconv.Itoa(start), journal)
				errf, _ := os.Create(journal + ".err")
				cmd.Stderr = errf
				cmd.Stdout = errf
				cmd.Env = append(os.Environ(), "VERIF_SCRATCH="+scratch)
				if c.Race {
					cmd.Env = append(cmd.Env, "GORACE=halt_on_error=0 log_path="+filepath.Join(scratch, fmt.Sprintf("race.%d.%d", w, attempt)))
				}
				done := make(chan error, 1)
				if err := cmd.Start(); err != nil {
					fmt.Println("worker start:", err)
					return
				}
				go func() { done <- cmd.Wait() }()
				timedOut := false
				select {
				case <-done:
				case <-time.After(wallLimit):
					timedOut = true
					cmd.Process.Signal(syscall.SIGQUIT)
					time.Sleep(2 * time.Second)
					cmd.Process.Kill()
					<-done
				}
				errf.Close()
				last, finished, x := parseJournal(journal, res.results)
				if finished {
					break
				}
				if last < 0 { // died before starting any case
					stderr, _ := os.ReadFile(journal + ".err")
					res.crashes = append(res.crashes, Result{Key: fmt.Sprintf("worker %d start %d", w, start), Verdict: Inconclusive, Kind: "worker-died-before-case", Detail: tail(string(stderr), 2000)})
					break
				}
				stderr, _ := os.ReadFile(journal + ".err")
				desc := fmt.Sprintf("case %d", last)
				if c.Describe != nil {
					desc = c.Describe(tier, seed, last)
				}
				r := Result{Key: desc, NonTrivial: true}
				switch {
				case timedOut:
					r.Verdict, r.Kind, r.Detail = Inconclusive, "wall-clock-watchdog", "worker exceeded wall-clock watchdog"
				case strings.HasPrefix(x, "oom"):
					r.Verdict, r.Kind, r.Detail = Violated, "resource:memory", "memory limit exceeded: "+x
				case strings.HasPrefix(x, "cpu"):
					r.Verdict, r.Kind, r.Detail = Violated, "resource:cpu", "cpu limit exceeded; goroutines: "+short(x, 3000)
				default:
					r.Verdict, r.Kind, r.Detail = Violated, "fatal:"+fatalClass(string(stderr)), tail(string(stderr), 3000)
				}
				delete(res.results, last)
				res.results[last] = []Result{r}
				start = last + 1
			}
			if c.Race {
				logs, _ := filepath.Glob(filepath.Join(scratch, fmt.Sprintf("race.%d.*", w)))
				for _, l := range logs {
					b, _ := os.ReadFile(l)
					res.race += string(b)
				}
			}
			out[w] = res
		}(w)
	}
	wg.Wait()

	// aggregate in case order (deterministic)
	all := map[int][]Result{}
	raceLog := ""
	for _, r := range out {
		for i, rs := range r.results {
			all[i] = rs
		}
		for _, cr := range r.crashes {
			cr := cr
			agg.add(&cr, known, -1)
		}
		raceLog += r.race
	}
	idx := make([]int, 0, len(all))
	for i := range all {
		idx = append(idx, i)
	}
	sort.Ints(idx)
	for _, i := range idx {
		rs := all[i]
		for k := range rs {
			agg.add(&rs[k], known, i)
		}
	}
	if len(idx) < n {
		agg.Inconcl += int64(n - len(idx))
		agg.InconclKinds["case-not-run"] += int64(n - len(idx))
	}
	if c.Race {
		reports := splitRaceReports(raceLog)
		agg.Counters["race_reports_raw"] = int64(len(reports))
		seen := map[string]bool{}
		for _, rep := range reports {
			sig := raceSignature(rep)
			if seen[sig] {
				continue
			}
			seen[sig] = true
			r := Result{Key: "race " + sig, Verdict: Violated, Kind: "data-race", Detail: rep, NonTrivial: true}
			agg.add(&r, known, -1)
		}
		agg.Counters["race_reports_distinct"] = int64(len(seen))
	}
	return finish(agg, known, root, time.Since(t0))
}

func tail(s string, n int) string {
	if len(s) > n {
		return "…" + s[len(s)-n:]
	}
	return s
}

func fatalClass(stderr string) string {
	for _, l := range strings.Split(stderr, "\n") {
		if strings.HasPrefix(l, "fatal error: ") {
			return strings.TrimPrefix(l, "fatal error: ")
		}
		if strings.HasPrefix(l, "runtime: goroutine stack exceeds") {
			return "stack overflow"
		}
		if strings.HasPrefix(l, "panic: ") {
			return short(l, 120)
		}
	}
	return "worker died"
}

func parseJournal(path string, into map[int][]Result) (last int, finished bool, x string) {
	last = -1
	f, err := os.Open(path)
	if err != nil {
		return
	}
	defer f.Close()
	sc := bufio.NewScanner(f)
	sc.Buffer(make([]byte, 1<<20), 1<<28)
	open := -1
	var pending []Result
	for sc.Scan() {
		l := sc.Text()
		switch {
		case strings.HasPrefix(l, "B "):
			open, _ = strconv.Atoi(l[2:])
			pending = nil
		case strings.HasPrefix(l, "R "):
			rest := l[2:]
			sp := strings.IndexByte(rest, ' ')
			if sp < 0 {
				continue
			}
			var r Result
			if json.Unmarshal([]byte(rest[sp+1:]), &r) == nil {
				pending = append(pending, r)
			}
		case strings.HasPrefix(l, "E "):
			i, _ := strconv.Atoi(l[2:])
			into[i] = pending
			pending = nil
			open = -1
		case strings.HasPrefix(l, "X "):
			rest := l[2:]
			sp := strings.IndexByte(rest, ' ')
			if sp > 0 {
				x = rest[sp+1:]
			}
		case l == "DONE":
			finished = true
		}
	}
	last = open
	return
}

func splitRaceReports(log string) []string {
	var out []string
	parts := strings.Split(log, "==================\n")
	for _, p := range parts {
		if strings.Contains(p, "WARNING: DATA RACE") {
			out = append(out, p)
		}
	}
	return out
}

// raceSignature de-duplicates by the pair of function names at the top of the two access stacks.
func raceSignature(rep string) string {
	var tops []string
	lines := strings.Split(rep, "\n")
	for i, l := range lines {
		if (strings.Contains(l, " at 0x") && (strings.HasPrefix(l, "Write") || strings.HasPrefix(l, "Read") || strings.HasPrefix(l, "Previous"))) && i+1 < len(lines) {
			fn := strings.TrimSpace(lines[i+1])
			if j := strings.IndexByte(fn, '('); j > 0 {
				fn = fn[:j]
			}
			tops = append(tops, fn)
		}
	}
	sort.Strings(tops)
	return strings.Join(tops, " | ")
}

func finish(a *Agg, known *Known, root string, wall time.Duration) int {
	c := a.Check
	// known findings
	for _, fid := range known.order {
		fmt.Printf("KNOWN-FINDING: property=%s %s %s (listed inputs: %d, reproduced in this run: %d)\n", c.ID, fid, known.findings[fid], known.listed[fid], a.KnownHits[fid])
	}
	// violations
	exit := 0
	if rec := os.Getenv("VERIF_RECORD"); rec != "" && len(a.Violations) > 0 {
		// maintenance mode (tools/record_atoms.py; never used by a registered command): dump every unlisted violation
		f, _ := os.Create(rec)
		w := bufio.NewWriter(f)
		for _, v := range a.Violations {
			b, _ := json.Marshal(map[string]string{"key": v.Key, "kind": v.Kind, "detail": short(v.Detail, 400)})
			w.Write(b)
			w.WriteByte('\n')
		}
		w.Flush()
		f.Close()
		fmt.Printf("%d unlisted violations dumped to %s\n", len(a.Violations), rec)
		exit = 1
	} else if len(a.Violations) > 0 {
		exit = 1
		dir := filepath.Join(root, "replays", c.ID)
		os.MkdirAll(dir, 0o755)
		for i, v := range a.Violations {
			h := sha256.Sum256([]byte(v.Key + "\x00" + v.Kind))
			path := filepath.Join(dir, hex.EncodeToString(h[:6])+".json")
			rec := map[string]any{"property": c.ID, "tier": a.Tier, "seed": a.Seed, "case": v.Counters["case"], "key": v.Key, "kind": v.Kind, "detail": v.Detail, "input": v.Input}
			b, _ := json.MarshalIndent(rec, "", " ")
			os.WriteFile(path, b, 0o644)
			if i < 40 {
				fmt.Printf("VIOLATION property=%s replay=%s\n", c.ID, path)
				fmt.Printf("    kind=%s key=%s\n    %s\n", v.Kind, short(v.Key, 300), short(strings.ReplaceAll(v.Detail, "\n", "\n    "), 900))
			} else if i == 40 {
				fmt.Printf("    … %d more violations (all written under %s)\n", len(a.Violations)-40, dir)
			}
		}
	}
	nt := len(a.distinct)
	if exit == 0 && nt < c.MinNT {
		fmt.Printf("INCONCLUSIVE property=%s: only %d distinct non-trivial observations (minimum %d)\n", c.ID, nt, c.MinNT)
		exit = 3
	}
	// evidence
	cov := map[string]any{
		"evaluations":         a.Evaluations,
		"distinct_nontrivial": nt,
		"rule":                c.Rule,
		"samples":             a.Samples,
		"cases_planned":       a.cases,
		"held":                a.Held,
		"inconclusive":        a.Inconcl,
		"skipped":             a.Skipped,
		"known_finding_hits":  a.KnownHits,
		"counters":            a.Counters,
	}
	if len(a.InconclKinds) > 0 {
		cov["inconclusive_reasons"] = a.InconclKinds
	}
	if len(a.SkipKinds) > 0 {
		cov["skipped_reasons"] = a.SkipKinds
	}
	for g, s := range a.tagSets {
		cov["distinct_"+g] = len(s)
		if len(s) <= 64 {
			var l []string
			for t := range s {
				l = append(l, t)
			}
			sort.Strings(l)
			cov["observed_"+g] = l
		}
	}
	if c.Exhaustive != nil && c.Exhaustive(a.Tier) {
		cov["exhaustive"] = true
	}
	if len(a.Samples) == 0 {
		cov["samples"] = []any{map[string]any{"note": "no held case sampled"}}
	}
	for k, v := range a.Extra {
		cov[k] = v
	}
	ev := map[string]any{
		"property_id": c.ID,
		"tier":        a.Tier,
		"seed":        int64(a.Seed & 0x7fffffffffffffff),
		"level":       c.Level,
		"coverage":    cov,
		"assumptions": c.Assume,
		"wall_s":      wall.Seconds(),
		"violations":  len(a.Violations),
	}
	b, _ := json.MarshalIndent(ev, "", " ")
	os.MkdirAll(filepath.Join(root, "evidence"), 0o755)
	tmp := filepath.Join(root, "evidence", c.ID+".json.tmp")
	os.WriteFile(tmp, b, 0o644)
	os.Rename(tmp, filepath.Join(root, "evidence", c.ID+".json"))
	fmt.Printf("%s %s seed=%d: cases=%d evaluations=%d distinct_nontrivial=%d held=%d known=%d violations=%d inconclusive=%d wall=%.1fs\n",
		c.ID, a.Tier, a.Seed, a.cases, a.Evaluations, nt, a.Held, sumv(a.KnownHits), len(a.Violations), a.Inconcl, wall.Seconds())
	return exit
}

func sumv(m map[string]int64) int64 {
	var s int64
	for _, v := range m {
		s += v
	}
	return s
}

// RunInline runs a single case in this process and prints its results (replay / debugging).
func RunInline(c *Check, tier string, seed uint64, i int) {
	rs := c.Run(tier, seed, i)
	for _, r := range rs {
		b, _ := json.MarshalIndent(&r, "", "  ")
		fmt.Println(string(b))
	}
}

// Scratch returns the per-run scratch directory (created by the supervisor, removed on exit).
func Scratch() string {
	if s := os.Getenv("VERIF_SCRATCH"); s != "" {
		return s
	}
	d, _ := os.MkdirTemp("", "vcheck-inline-")
	os.Setenv("VERIF_SCRATCH", d)
	return d
}
